// Command vw is driver and worker of the /verif runtime monitors.
//
//	vw run <ID> [--tier quick|thorough]   run a check (driver)
//	vw worker <ID> <cases> <journal> <from>  child mode
//	vw replay <file>                       re-execute one recorded case
package main

import (
	"encoding/json"
	"fmt"
	"os"
	"strconv"
	"time"

	"verifharness/internal/checks"
	"verifharness/internal/core"
)

func main() {
	if len(os.Args) < 2 {
		usage()
	}
	switch os.Args[1] {
	case "run":
		if len(os.Args) < 3 {
			usage()
		}
		id := os.Args[2]
		tier := os.Getenv("VERIF_TIER")
		for i := 3; i < len(os.Args); i++ {
			if os.Args[i] == "--tier" && i+1 < len(os.Args) {
				tier = os.Args[i+1]
			}
		}
		if tier != "thorough" {
			tier = "quick"
		}
		ck := checks.Get(id)
		if ck == nil {
			fmt.Fprintf(os.Stderr, "unknown check %s\n", id)
			os.Exit(3)
		}
		seed := core.Seed()
		started := time.Now()
		cases := ck.Cases(tier, seed)
		exe := os.Getenv("VW_WORKER_EXE")
		if exe == "" {
			exe, _ = os.Executable()
		}
		results := core.RunAll(ck, cases, exe)
		if pp, ok := ck.(checks.PostProcessor); ok {
			pp.Post(tier, cases, results)
		}
		os.Exit(core.Finish(ck, tier, seed, cases, results, started))
	case "worker":
		if len(os.Args) < 6 {
			usage()
		}
		ck := checks.Get(os.Args[2])
		if ck == nil {
			os.Exit(3)
		}
		from, _ := strconv.Atoi(os.Args[5])
		core.WorkerMain(ck, os.Args[3], os.Args[4], from)
	case "replay":
		if len(os.Args) < 3 {
			usage()
		}
		b, err := os.ReadFile(os.Args[2])
		if err != nil {
			fmt.Fprintln(os.Stderr, err)
			os.Exit(3)
		}
		var rep struct {
			Property string    `json:"property"`
			Case     core.Case `json:"case"`
		}
		if err := json.Unmarshal(b, &rep); err != nil {
			fmt.Fprintln(os.Stderr, err)
			os.Exit(3)
		}
		ck := checks.Get(rep.Property)
		if ck == nil {
			os.Exit(3)
		}
		var res core.Result
		pi := core.Protect(func() { res = ck.Run(rep.Case) })
		if pi != nil {
			fmt.Printf("VIOLATION property=%s replay=%s\n  panic: %s\n%s\n", rep.Property, os.Args[2], pi.Msg, pi.Stack)
			os.Exit(1)
		}
		out, _ := json.MarshalIndent(res, "", " ")
		fmt.Println(string(out))
		if res.Verdict == core.Violated {
			fmt.Printf("VIOLATION property=%s replay=%s\n", rep.Property, os.Args[2])
			os.Exit(1)
		}
	case "list":
		for _, id := range checks.IDs() {
			fmt.Println(id)
		}
	default:
		usage()
	}
}

func usage() {
	fmt.Fprintln(os.Stderr, "usage: vw run <ID> [--tier quick|thorough] | vw worker ... | vw replay <file> | vw list")
	os.Exit(3)
}
