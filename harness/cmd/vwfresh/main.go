// Command vwfresh executes ONE kind of GF(2^16) operation as the very
// first use of package gf2p16 in a fresh process and compares it with
// the reference arithmetic. It imports neither rsec16 nor par2, whose
// package initialisation would already have used the field.
//
//	vwfresh <times|div|inverse|pow|mulslice|muladdslice> <seed>
package main

import (
	"fmt"
	"math/rand"
	"os"
	"strconv"

	"github.com/akalin/gopar/gf2p16"

	"verifharness/internal/ref/gf16"
)

func main() {
	if len(os.Args) < 3 {
		fmt.Println("usage: vwfresh <op> <seed>")
		os.Exit(3)
	}
	op := os.Args[1]
	seed, _ := strconv.ParseInt(os.Args[2], 10, 64)
	rng := rand.New(rand.NewSource(seed))
	bad := 0
	report := func(format string, a ...interface{}) {
		if bad < 5 {
			fmt.Printf("MISMATCH "+format+"\n", a...)
		}
		bad++
	}
	n := 20000
	defer func() {
		if v := recover(); v != nil {
			fmt.Printf("MISMATCH panic as first operation %s: %v\n", op, v)
			os.Exit(1)
		}
	}()
	switch op {
	case "times":
		for i := 0; i < n; i++ {
			a, b := uint16(rng.Intn(65536)), uint16(rng.Intn(65536))
			if got := uint16(gf2p16.T(a).Times(gf2p16.T(b))); got != gf16.Mul(a, b) {
				report("T(%d).Times(%d) = %d, reference %d", a, b, got, gf16.Mul(a, b))
			}
		}
	case "div":
		for i := 0; i < n; i++ {
			a, b := uint16(rng.Intn(65536)), uint16(1+rng.Intn(65535))
			if i < 3 {
				a, b = []uint16{6, 7, 40000}[i], []uint16{3, 7, 1}[i]
			}
			if got := uint16(gf2p16.T(a).Div(gf2p16.T(b))); got != gf16.Div(a, b) {
				report("T(%d).Div(%d) = %d, reference %d", a, b, got, gf16.Div(a, b))
			}
		}
	case "inverse":
		for i := 0; i < n; i++ {
			a := uint16(1 + rng.Intn(65535))
			if got := uint16(gf2p16.T(a).Inverse()); got != gf16.Inv(a) {
				report("T(%d).Inverse() = %d, reference %d", a, got, gf16.Inv(a))
			}
		}
	case "pow":
		for i := 0; i < n/10; i++ {
			a, e := uint16(rng.Intn(65536)), rng.Uint32()
			if got := uint16(gf2p16.T(a).Pow(e)); got != gf16.Pow(a, uint64(e)) {
				report("T(%d).Pow(%d) = %d, reference %d", a, e, got, gf16.Pow(a, uint64(e)))
			}
		}
	case "mulslice", "muladdslice":
		for i := 0; i < 400; i++ {
			c := uint16(rng.Intn(65536))
			switch {
			case i < 32:
				c = uint16(65535 - i) // the last table rows
			case i < 48:
				c = uint16(i - 32) // the first ones
			}
			l := 2 * rng.Intn(60)
			if i%7 == 0 {
				l = 64 + 2*rng.Intn(40)
			}
			in := make([]byte, l)
			out := make([]byte, l)
			rng.Read(in)
			rng.Read(out)
			old := append([]byte(nil), out...)
			if op == "mulslice" {
				gf2p16.MulByteSliceLE(gf2p16.T(c), in, out)
			} else {
				gf2p16.MulAndAddByteSliceLE(gf2p16.T(c), in, out)
			}
			for w := 0; w+1 < l; w += 2 {
				want := gf16.Mul(c, uint16(in[w])|uint16(in[w+1])<<8)
				if op == "muladdslice" {
					want ^= uint16(old[w]) | uint16(old[w+1])<<8
				}
				if got := uint16(out[w]) | uint16(out[w+1])<<8; got != want {
					report("%s c=%d word %d: %d, reference %d", op, c, w/2, got, want)
					break
				}
			}
		}
	default:
		fmt.Println("unknown op", op)
		os.Exit(3)
	}
	if bad > 0 {
		fmt.Printf("FAILED %d mismatches with %s as the first operation of the process\n", bad, op)
		os.Exit(1)
	}
	fmt.Printf("OK %s\n", op)
}
