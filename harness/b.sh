#!/bin/bash
# developer helper: build + vet the harness with the verif tag
export GOFLAGS="-mod=mod -tags=verif" GOPROXY=off GOSUMDB=off GOTOOLCHAIN=local
cd "$(dirname "$0")" && go build ./... && go vet ./... && echo BUILD-OK
