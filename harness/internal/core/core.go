// Package core is the shared runtime of the /verif checks: case lists,
// child-process isolation with a write-ahead journal, verdict
// aggregation, known-findings handling, evidence and replay files.
package core

import (
	"bufio"
	"crypto/sha256"
	"encoding/hex"
	"encoding/json"
	"fmt"
	"hash/fnv"
	"math/rand"
	"os"
	"os/exec"
	"os/signal"
	"path/filepath"
	"regexp"
	"runtime"
	"runtime/debug"
	"sort"
	"strconv"
	"strings"
	"sync"
	"syscall"
	"time"
)

// VerifDir is the root of the verification tree.
var VerifDir = func() string {
	if d := os.Getenv("VERIF_DIR"); d != "" {
		return d
	}
	return "/verif"
}()

// Verdicts.
const (
	Held         = "held"
	Violated     = "violated"
	Inconclusive = "inconclusive"
)

// Case is one unit of work. Params is check-specific JSON.
type Case struct {
	Idx    int             `json:"idx"`
	Name   string          `json:"name"`
	Params json.RawMessage `json:"params"`
	// Race asks for the case to run in the -race build of the worker.
	Race bool `json:"race,omitempty"`
	// Arch386 asks for the case to run in the GOARCH=386 build of the
	// worker (32-bit int, portable kernels) on the same machine.
	Arch386 bool `json:"arch386,omitempty"`
}

// Result is what running one case produced.
type Result struct {
	Idx     int    `json:"idx"`
	Verdict string `json:"verdict"`
	// Sig identifies the kind of violation (used against
	// KNOWN_FINDINGS.txt).
	Sig    string `json:"sig,omitempty"`
	Detail string `json:"detail,omitempty"`
	// Keys are the "distinct non-trivial" keys this case
	// contributes (empty = trivial case).
	Keys []string `json:"keys,omitempty"`
	// Counters are monitor observation counts, summed over cases.
	Counters map[string]int64 `json:"counters,omitempty"`
	// Sets are named sets of observed values, unioned over cases
	// and reported by size (plus a few members).
	Sets map[string][]string `json:"sets,omitempty"`
	// Sample is a human-readable rendering of the case.
	Sample interface{} `json:"sample,omitempty"`
	// Extra violations found inside one case (a case may explore
	// many sub-cases); each has its own signature.
	More []SubViolation `json:"more,omitempty"`
	// Crashed is set by the driver when the child died.
	Crashed bool `json:"crashed,omitempty"`
}

// SubViolation is an additional violation inside a case.
type SubViolation struct {
	Sig    string `json:"sig"`
	Detail string `json:"detail"`
}

// R is a convenience builder used inside checks.
type R struct {
	res Result
	mu  sync.Mutex
}

// NewR starts a result for a case.
func NewR(c Case) *R {
	return &R{res: Result{Idx: c.Idx, Verdict: Held, Counters: map[string]int64{}, Sets: map[string][]string{}}}
}

// Count adds n to counter k.
func (r *R) Count(k string, n int64) {
	r.mu.Lock()
	r.res.Counters[k] += n
	r.mu.Unlock()
}

// Key adds a distinct-nontrivial key.
func (r *R) Key(format string, a ...interface{}) {
	r.mu.Lock()
	r.res.Keys = append(r.res.Keys, fmt.Sprintf(format, a...))
	r.mu.Unlock()
}

// SetAdd adds a member to a named set.
func (r *R) SetAdd(set, member string) {
	r.mu.Lock()
	for _, m := range r.res.Sets[set] {
		if m == member {
			r.mu.Unlock()
			return
		}
	}
	if len(r.res.Sets[set]) < 4096 {
		r.res.Sets[set] = append(r.res.Sets[set], member)
	}
	r.mu.Unlock()
}

// Violate records a violation with a signature.
func (r *R) Violate(sig, format string, a ...interface{}) {
	r.mu.Lock()
	defer r.mu.Unlock()
	d := fmt.Sprintf(format, a...)
	if len(d) > 4000 {
		d = d[:4000] + "…"
	}
	if r.res.Verdict != Violated {
		r.res.Verdict = Violated
		r.res.Sig = sig
		r.res.Detail = d
		journalViolation(sig, d)
		return
	}
	if len(r.res.More) < 50 {
		r.res.More = append(r.res.More, SubViolation{sig, d})
		journalViolation(sig, d)
	}
}

// Inconclusive marks the case inconclusive unless already violated.
func (r *R) Inconclusive(format string, a ...interface{}) {
	r.mu.Lock()
	defer r.mu.Unlock()
	if r.res.Verdict == Held {
		r.res.Verdict = Inconclusive
		r.res.Detail = fmt.Sprintf(format, a...)
	}
}

// Sample sets the sample rendering.
func (r *R) Sample(v interface{}) { r.res.Sample = v }

// Violated reports whether a violation was recorded.
func (r *R) IsViolated() bool { return r.res.Verdict == Violated }

// Done returns the result.
func (r *R) Done() Result { return r.res }

// Check is implemented by every property check.
type Check interface {
	ID() string
	// Level is the evidence level category.
	Level() string
	// Rule describes generation and the distinct/non-trivial rule.
	Rule() string
	// Assumptions lists what the check trusts.
	Assumptions() []string
	// Cases returns the deterministic case list for tier and seed.
	Cases(tier string, seed int64) []Case
	// Run executes one case in a worker process.
	Run(c Case) Result
	// Opts returns process options for the workers.
	Opts() WorkerOpts
}

// WorkerOpts configures child processes.
type WorkerOpts struct {
	// ASLimitMiB is RLIMIT_AS in MiB (0 = none).
	ASLimitMiB int
	// CPUSeconds is RLIMIT_CPU per worker (0 = none).
	CPUSeconds int
	// WallSeconds is the watchdog per worker process.
	WallSeconds int
	// MaxProcs caps parallel workers (0 = NumCPU).
	MaxProcs int
	// CrashIsViolation: a dying worker is a violation of the
	// property (otherwise inconclusive harness failure).
	CrashIsViolation bool
	// HandlesRaceLog: the check reads the race detector log itself.
	HandlesRaceLog bool
	// CPULimitIsViolation: exhausting CPUSeconds (a CPU-time bound that
	// is load independent and far above the case's normal cost) in a
	// sub-case is reported as non-termination, a violation.
	CPULimitIsViolation bool
	// BlockedSeconds is the window of the blocked-process monitor (default 60).
	BlockedSeconds int
	// Race: run workers from the -race binary.
	Race bool
	// Env adds environment variables for the workers.
	Env []string
	// BatchSize is the number of cases handed to a worker process
	// at once (0 = automatic).
	BatchSize int
	// Exhaustive is reported in the evidence when the check
	// enumerates its stated sub-space completely.
	Exhaustive bool
	// Extra evidence fields.
	Extra map[string]interface{}
}

// Seed returns VERIF_SEED (default 1).
func Seed() int64 {
	if s := os.Getenv("VERIF_SEED"); s != "" {
		if v, err := strconv.ParseInt(s, 10, 64); err == nil {
			return v
		}
	}
	return 1
}

// Rng returns a PRNG keyed by the given parts.
func Rng(parts ...interface{}) *rand.Rand {
	h := fnv.New64a()
	fmt.Fprint(h, parts...)
	return rand.New(rand.NewSource(int64(h.Sum64())))
}

// MkCase builds a case from a params value.
func MkCase(name string, params interface{}) Case {
	b, err := json.Marshal(params)
	if err != nil {
		panic(err)
	}
	return Case{Name: name, Params: b}
}

// Decode unmarshals case params.
func Decode(c Case, into interface{}) {
	if err := json.Unmarshal(c.Params, into); err != nil {
		panic(fmt.Sprintf("bad case params: %v", err))
	}
}

// ---------------------------------------------------------------------
// Worker side.

// PanicInfo describes a recovered panic.
type PanicInfo struct {
	Msg   string
	Frame string
	Stack string
}

var frameRe = regexp.MustCompile(`(?m)^(github\.com/akalin/gopar/[^\s(]+(?:\([^)]*\))?[^\s(]*)\(`)
var frameRe2 = regexp.MustCompile(`(?m)^(github\.com/(?:akalin/gopar|klauspost/reedsolomon)[^\s]*?)\(`)

// TopGoparFrame extracts the first gopar (or reedsolomon) function in
// a stack dump, without arguments or line numbers.
func TopGoparFrame(stack string) string {
	for _, line := range strings.Split(stack, "\n") {
		line = strings.TrimSpace(line)
		if strings.HasPrefix(line, "github.com/akalin/gopar/") || strings.HasPrefix(line, "github.com/klauspost/reedsolomon") {
			if i := strings.LastIndex(line, "("); i > 0 {
				line = line[:i]
			}
			line = strings.TrimPrefix(line, "github.com/akalin/gopar/")
			line = strings.TrimPrefix(line, "github.com/klauspost/")
			return line
		}
	}
	return "?"
}

var numRe = regexp.MustCompile(`\b(0x[0-9a-fA-F]+|-?\d+)\b`)

// NormalizeMsg strips numbers from a panic message.
func NormalizeMsg(msg string) string {
	msg = strings.TrimSpace(msg)
	if i := strings.Index(msg, "\n"); i >= 0 {
		msg = msg[:i]
	}
	msg = numRe.ReplaceAllString(msg, "N")
	if len(msg) > 120 {
		msg = msg[:120]
	}
	return msg
}

// Protect runs f and converts a panic into PanicInfo.
func Protect(f func()) (pi *PanicInfo) {
	defer func() {
		if v := recover(); v != nil {
			st := string(debug.Stack())
			// Drop the frames of the recover machinery itself.
			if i := strings.Index(st, "panic("); i >= 0 {
				st = st[i:]
			}
			pi = &PanicInfo{Msg: fmt.Sprint(v), Frame: TopGoparFrame(st), Stack: st}
		}
	}()
	f()
	return nil
}

// CrashSig builds the signature of a crash.
func CrashSig(op, frame, msg string) string {
	return fmt.Sprintf("crash|%s|%s|%s", op, frame, NormalizeMsg(msg))
}

var noteFile *os.File

// Note records what the worker is about to do, so that a process-fatal
// crash (a fault inside assembly, the race detector aborting, ...) can
// be attributed to the exact sub-case. It costs one pwrite.
func Note(format string, a ...interface{}) {
	if noteFile == nil {
		return
	}
	s := fmt.Sprintf(format, a...)
	if len(s) > 1000 {
		s = s[:1000]
	}
	b := make([]byte, 1024)
	copy(b, s)
	for i := len(s); i < 1024; i++ {
		b[i] = ' '
	}
	noteFile.WriteAt(b, 0)
}

var (
	wJournal   *os.File
	wIdx       = -1
	wResumeIdx = -1
	wResumeSub = 0
	wAttempt   = 0
)

func journalViolation(sig, detail string) {
	if wJournal == nil {
		return
	}
	b, _ := json.Marshal(SubViolation{sig, detail})
	fmt.Fprintf(wJournal, "V %d %d %s\n", wIdx, wAttempt, b)
}

// Sub announces sub-case i of the running case. It returns false when
// the sub-case must be skipped because an earlier attempt of this case
// already went past it (the worker died there and was restarted). A
// process-fatal failure is thereby attributed to one sub-case and does
// not mask the sub-cases after it.
func Sub(i int) bool {
	if wIdx == wResumeIdx && i < wResumeSub {
		return false
	}
	if wJournal != nil {
		fmt.Fprintf(wJournal, "S %d %d\n", wIdx, i)
	}
	return true
}

// WorkerMain is the entry point of `vw worker`.
func WorkerMain(ck Check, caseFile, journal string, from int) {
	o := ck.Opts()
	if o.ASLimitMiB > 0 && !o.Race && os.Getenv("VW_IS_RACE") == "" {
		lim := uint64(o.ASLimitMiB) << 20
		_ = syscall.Setrlimit(syscall.RLIMIT_AS, &syscall.Rlimit{Cur: lim, Max: lim})
	}
	if o.CPUSeconds > 0 {
		lim := uint64(o.CPUSeconds)
		_ = syscall.Setrlimit(syscall.RLIMIT_CPU, &syscall.Rlimit{Cur: lim, Max: lim + 30})
		// The Go runtime ignores SIGXCPU unless somebody asks for it.
		ch := make(chan os.Signal, 1)
		signal.Notify(ch, syscall.SIGXCPU)
		go func() {
			<-ch
			fmt.Fprintln(os.Stderr, "VW-CPU-LIMIT: RLIMIT_CPU exceeded")
			os.Exit(97)
		}()
	}
	b, err := os.ReadFile(caseFile)
	if err != nil {
		fmt.Fprintln(os.Stderr, "worker: ", err)
		os.Exit(3)
	}
	var cases []Case
	if err := json.Unmarshal(b, &cases); err != nil {
		fmt.Fprintln(os.Stderr, "worker: ", err)
		os.Exit(3)
	}
	jf, err := os.OpenFile(journal, os.O_WRONLY|os.O_APPEND|os.O_CREATE, 0644)
	if err != nil {
		fmt.Fprintln(os.Stderr, "worker: ", err)
		os.Exit(3)
	}
	noteFile, _ = os.OpenFile(journal+".note", os.O_RDWR|os.O_CREATE|os.O_TRUNC, 0644)
	wJournal = jf
	wResumeIdx = from
	wResumeSub, _ = strconv.Atoi(os.Getenv("VW_RESUME_SUB"))
	wAttempt, _ = strconv.Atoi(os.Getenv("VW_ATTEMPT"))
	for _, c := range cases {
		if c.Idx < from {
			continue
		}
		wIdx = c.Idx
		Note("")
		fmt.Fprintf(jf, "B %d\n", c.Idx)
		var res Result
		raceOff := raceLogSize()
		pi := Protect(func() { res = ck.Run(c) })
		if pi != nil {
			// A panic that escaped the check's own handling:
			// treat as a crash of this case.
			res = Result{Idx: c.Idx, Verdict: Violated, Sig: CrashSig("run", pi.Frame, pi.Msg), Detail: "panic: " + pi.Msg + "\n" + trunc(pi.Stack, 3000), Crashed: true}
		}
		res.Idx = c.Idx
		// Race-build workers: every report the race detector appended to this
		// process's log while the case ran is a violation (checks that handle
		// the log themselves set HandlesRaceLog).
		if c.Race && !ck.Opts().HandlesRaceLog {
			for _, rep := range raceReportsSince(raceOff) {
				sv := SubViolation{RaceSig(rep), "race detector report while running case " + c.Name + ":\n" + trunc(rep, 2500)}
				if res.Verdict != Violated {
					res.Verdict, res.Sig, res.Detail = Violated, sv.Sig, sv.Detail
				} else {
					res.More = append(res.More, sv)
				}
			}
			if res.Counters == nil {
				res.Counters = map[string]int64{}
			}
			res.Counters["race_log_checks"]++
		}
		rb, _ := json.Marshal(res)
		fmt.Fprintf(jf, "E %d %s\n", c.Idx, rb)
	}
	jf.Close()
}

func trunc(s string, n int) string {
	if len(s) > n {
		return s[:n] + "…"
	}
	return s
}

// ---------------------------------------------------------------------
// Driver side.

type batch struct {
	cases []Case
	race  bool
	a386  bool
}

// RunAll executes all cases in child processes and returns results in
// case order.
func RunAll(ck Check, cases []Case, exe string) []Result {
	o := ck.Opts()
	for i := range cases {
		cases[i].Idx = i
	}
	nproc := runtime.NumCPU()
	if o.MaxProcs > 0 && o.MaxProcs < nproc {
		nproc = o.MaxProcs
	}
	bs := o.BatchSize
	if bs <= 0 {
		bs = (len(cases) + nproc*4 - 1) / (nproc * 4)
		if bs < 1 {
			bs = 1
		}
	}
	var batches []batch
	var plain, race, a386 []Case
	for _, c := range cases {
		if c.Arch386 || (os.Getenv("VW_FORCE_386") != "" && !c.Race) {
			a386 = append(a386, c)
		} else if c.Race {
			race = append(race, c)
		} else {
			plain = append(plain, c)
		}
	}
	for i := 0; i < len(plain); i += bs {
		j := i + bs
		if j > len(plain) {
			j = len(plain)
		}
		batches = append(batches, batch{plain[i:j], false, false})
	}
	// Race workers are expensive to start (table initialisation
	// under the race detector): one long-lived worker per core.
	rbs := (len(race) + nproc - 1) / nproc
	if rbs < 1 {
		rbs = 1
	}
	for i := 0; i < len(race); i += rbs {
		j := i + rbs
		if j > len(race) {
			j = len(race)
		}
		batches = append(batches, batch{race[i:j], true, false})
	}
	for i := 0; i < len(a386); i += bs {
		j := i + bs
		if j > len(a386) {
			j = len(a386)
		}
		batches = append(batches, batch{a386[i:j], false, true})
	}
	results := make([]Result, len(cases))
	scratch, err := os.MkdirTemp("", "vw-"+ck.ID()+"-")
	if err != nil {
		panic(err)
	}
	defer os.RemoveAll(scratch)

	var wg sync.WaitGroup
	ch := make(chan int)
	for w := 0; w < nproc; w++ {
		wg.Add(1)
		go func(w int) {
			defer wg.Done()
			for bi := range ch {
				runBatch(ck, o, exe, scratch, bi, batches[bi], results)
			}
		}(w)
	}
	for bi := range batches {
		ch <- bi
	}
	close(ch)
	wg.Wait()
	return results
}

func runBatch(ck Check, o WorkerOpts, exe, scratch string, bi int, b batch, results []Result) {
	caseFile := filepath.Join(scratch, fmt.Sprintf("b%d.cases.json", bi))
	journal := filepath.Join(scratch, fmt.Sprintf("b%d.journal", bi))
	cb, _ := json.Marshal(b.cases)
	if err := os.WriteFile(caseFile, cb, 0644); err != nil {
		panic(err)
	}
	done := map[int]bool{}
	// Positions within the batch (case indices need not be contiguous).
	pos := 0
	attempts := 0
	idxPos := map[int]int{}
	for i, c := range b.cases {
		idxPos[c.Idx] = i
	}
	resumeSub := 0
	pending := map[int][]SubViolation{} // crashes of earlier attempts, per case
	pendingNotes := map[int][]string{}
	earlierV := map[int][]SubViolation{}
	restarts := 0
	for pos < len(b.cases) {
		from := b.cases[pos].Idx
		attempts++
		outFile := filepath.Join(scratch, fmt.Sprintf("b%d.out.%d", bi, attempts))
		of, _ := os.Create(outFile)
		wexe := exe
		if b.a386 {
			wexe = os.Getenv("VW_386_EXE")
			if wexe == "" {
				panic("VW_386_EXE not set but a case asks for the 386 build")
			}
		}
		cmd := exec.Command(wexe, "worker", ck.ID(), caseFile, journal, strconv.Itoa(from))
		cmd.Env = append(os.Environ(), "GOTRACEBACK=all")
		cmd.Env = append(cmd.Env, o.Env...)
		if b.race {
			rexe := os.Getenv("VW_RACE_EXE")
			if rexe == "" {
				panic("VW_RACE_EXE not set but a case asks for the race build")
			}
			cmd = exec.Command(rexe, "worker", ck.ID(), caseFile, journal, strconv.Itoa(from))
			cmd.Env = append(os.Environ(), "GOTRACEBACK=all", "VW_IS_RACE=1",
				"GORACE=halt_on_error=0 history_size=3 log_path="+filepath.Join(scratch, fmt.Sprintf("race-b%d", bi)))
			cmd.Env = append(cmd.Env, o.Env...)
		}
		cmd.Env = append(cmd.Env, fmt.Sprintf("VW_RESUME_SUB=%d", resumeSub), fmt.Sprintf("VW_ATTEMPT=%d", attempts))
		resumeSub = 0
		cmd.Stdout = of
		cmd.Stderr = of
		wall := o.WallSeconds
		if wall <= 0 {
			wall = 900
		}
		timedOut := false
		// The worker leads its own process group, so that its children (the par
		// binary, strace) are accounted and killed with it.
		cmd.SysProcAttr = &syscall.SysProcAttr{Setpgid: true}
		err := cmd.Start()
		if err != nil {
			panic(err)
		}
		timer := time.AfterFunc(time.Duration(wall)*time.Second, func() {
			timedOut = true
			cmd.Process.Signal(syscall.SIGQUIT)
			time.Sleep(2 * time.Second)
			syscall.Kill(-cmd.Process.Pid, syscall.SIGKILL)
		})
		// Blocked-process monitor: a case is open, the journal does not grow and
		// the whole process group consumes no CPU time at all for a full window.
		// That is not slowness (a runnable process accumulates CPU time however
		// loaded the machine is) but a process in which nothing can run any more:
		// a deadlock or a wait that nobody will ever satisfy.
		blocked := false
		stopMon := make(chan struct{})
		go func() {
			window := o.BlockedSeconds
			if window <= 0 {
				window = 60
			}
			pid := cmd.Process.Pid
			lastTicks, lastSize := int64(-1), int64(-1)
			idle := 0
			for {
				select {
				case <-stopMon:
					return
				case <-time.After(5 * time.Second):
				}
				ticks := groupCPUTicks(pid)
				var size int64
				if st, err := os.Stat(journal); err == nil {
					size = st.Size()
				}
				if ticks >= 0 && ticks == lastTicks && size == lastSize {
					idle += 5
				} else {
					idle = 0
				}
				lastTicks, lastSize = ticks, size
				if idle >= window {
					blocked = true
					cmd.Process.Signal(syscall.SIGQUIT)
					time.Sleep(2 * time.Second)
					syscall.Kill(-pid, syscall.SIGKILL)
					return
				}
			}
		}()
		werr := cmd.Wait()
		timer.Stop()
		close(stopMon)
		of.Close()
		// Read the journal.
		inflight := -1
		lastSub := -1
		vThis := map[int][]SubViolation{}
		jb, _ := os.ReadFile(journal)
		os.Truncate(journal, 0)
		sc := bufio.NewScanner(strings.NewReader(string(jb)))
		sc.Buffer(make([]byte, 1<<20), 64<<20)
		for sc.Scan() {
			line := sc.Text()
			if strings.HasPrefix(line, "B ") {
				inflight, _ = strconv.Atoi(line[2:])
				lastSub = -1
			} else if strings.HasPrefix(line, "S ") {
				f := strings.Fields(line)
				if len(f) == 3 {
					lastSub, _ = strconv.Atoi(f[2])
				}
			} else if strings.HasPrefix(line, "V ") {
				f := strings.SplitN(line, " ", 4)
				if len(f) == 4 {
					ci, _ := strconv.Atoi(f[1])
					var sv SubViolation
					if json.Unmarshal([]byte(f[3]), &sv) == nil {
						vThis[ci] = append(vThis[ci], sv)
					}
				}
			} else if strings.HasPrefix(line, "E ") {
				rest := line[2:]
				sp := strings.IndexByte(rest, ' ')
				if sp < 0 {
					continue
				}
				idx, _ := strconv.Atoi(rest[:sp])
				var r Result
				if json.Unmarshal([]byte(rest[sp+1:]), &r) == nil {
					// merge what earlier attempts of this case found
					for _, sv := range append(earlierV[idx], pending[idx]...) {
						if r.Verdict != Violated {
							r.Verdict = Violated
							r.Sig, r.Detail = sv.Sig, sv.Detail
						} else if len(r.More) < 200 {
							r.More = append(r.More, sv)
						}
					}
					if n := len(pendingNotes[idx]); n > 0 {
						if r.Counters == nil {
							r.Counters = map[string]int64{}
						}
						r.Counters["inconclusive_subcases"] += int64(n)
						if r.Sets == nil {
							r.Sets = map[string][]string{}
						}
						r.Sets["inconclusive_subcases"] = append(r.Sets["inconclusive_subcases"], pendingNotes[idx]...)
					}
					results[idx] = r
					done[idx] = true
				}
				if idx == inflight {
					inflight = -1
				}
			}
		}
		if werr == nil && inflight == -1 {
			// Completed normally.
			allDone := true
			for _, c := range b.cases {
				if !done[c.Idx] {
					allDone = false
				}
			}
			if allDone {
				return
			}
		}
		// The worker died (or never started the remaining cases).
		ob, _ := os.ReadFile(outFile)
		out := string(ob)
		if nb, err := os.ReadFile(journal + ".note"); err == nil {
			if note := strings.TrimSpace(string(nb)); note != "" {
				out = "last note before death: " + note + "\n" + out
			}
		}
		if inflight >= 0 && !done[inflight] && lastSub >= 0 && restarts < 400 {
			// The check announces sub-cases: attribute the death to the
			// sub-case, keep what this attempt found, and resume after it.
			restarts++
			msg, frame := parseCrash(out)
			earlierV[inflight] = append(earlierV[inflight], vThis[inflight]...)
			oom := strings.Contains(out, "out of memory") || strings.Contains(out, "cannot allocate memory")
			switch {
			case blocked:
				// Do not resume: whatever blocks here is likely to block again.
				r := Result{Idx: inflight, Crashed: true, Verdict: Violated, Sig: "non-termination|blocked",
					Detail: fmt.Sprintf("sub-case %d: the worker and its children consumed no CPU time and made no progress for a whole window (nothing in the process can run any more: deadlock or lost wake-up); goroutine dump: %s", lastSub, tail(firstLines(out, 60), 3000))}
				for _, sv := range append(earlierV[inflight], pending[inflight]...) {
					r.More = append(r.More, sv)
				}
				results[inflight] = r
				done[inflight] = true
				for pos < len(b.cases) && done[b.cases[pos].Idx] {
					pos++
				}
				continue
			case timedOut:
				pendingNotes[inflight] = append(pendingNotes[inflight], fmt.Sprintf("sub-case %d: wall-clock watchdog", lastSub))
			case isRlimitCPU(werr) && o.CPULimitIsViolation:
				// Do not resume: further sub-cases may hang as well and each
				// costs the full CPU budget. The case ends here, violated.
				r := Result{Idx: inflight, Crashed: true, Verdict: Violated, Sig: "non-termination|cpu-limit",
					Detail: fmt.Sprintf("sub-case %d did not finish within the CPU-time limit of %d s (the whole tier normally needs a fraction of that): %s", lastSub, o.CPUSeconds, tail(firstLines(out, 6), 800))}
				for _, sv := range append(earlierV[inflight], pending[inflight]...) {
					r.More = append(r.More, sv)
				}
				results[inflight] = r
				done[inflight] = true
				for pos < len(b.cases) && done[b.cases[pos].Idx] {
					pos++
				}
				continue
			case isRlimitCPU(werr):
				pendingNotes[inflight] = append(pendingNotes[inflight], fmt.Sprintf("sub-case %d: RLIMIT_CPU", lastSub))
			case oom && strings.Contains(out, "[declared-size-above-cap]"):
				pendingNotes[inflight] = append(pendingNotes[inflight], fmt.Sprintf("sub-case %d: allocation failure on a declared size above the cap: %s", lastSub, trunc(firstLines(out, 2), 300)))
			case oom:
				pending[inflight] = append(pending[inflight], SubViolation{CrashSig("oom", frame, "out of memory"), tail(firstLines(out, 40), 2500)})
			case o.CrashIsViolation:
				pending[inflight] = append(pending[inflight], SubViolation{CrashSig("fatal", frame, msg), fmt.Sprintf("worker died (%v) in sub-case %d: %s", werr, lastSub, tail(firstLines(out, 50), 2500))})
			default:
				pendingNotes[inflight] = append(pendingNotes[inflight], fmt.Sprintf("sub-case %d: worker died (%v)", lastSub, werr))
			}
			resumeSub = lastSub + 1
			pos = idxPos[inflight]
			continue
		}
		if inflight >= 0 && !done[inflight] {
			r := Result{Idx: inflight, Crashed: true}
			msg, frame := parseCrash(out)
			switch {
			case blocked:
				r.Verdict = Violated
				r.Sig = "non-termination|blocked"
				r.Detail = "the worker and its children consumed no CPU time and made no progress for a whole window (nothing in the process can run any more: deadlock or lost wake-up); goroutine dump: " + tail(firstLines(out, 60), 3000)
			case timedOut:
				r.Verdict = Inconclusive
				r.Detail = "wall-clock watchdog fired; output tail: " + tail(out, 1500)
			case isRlimitCPU(werr) && o.CPULimitIsViolation:
				r.Verdict = Violated
				r.Sig = "non-termination|cpu-limit"
				r.Detail = fmt.Sprintf("the case did not finish within the CPU-time limit of %d s: %s", o.CPUSeconds, tail(firstLines(out, 6), 800))
			case isRlimitCPU(werr):
				r.Verdict = Inconclusive
				r.Detail = "RLIMIT_CPU hit: " + tail(out, 500)
			case (strings.Contains(out, "out of memory") || strings.Contains(out, "cannot allocate memory")) && strings.Contains(out, "[declared-size-above-cap]"):
				// An allocation proportional to a size the archive itself
				// declares above the cap: inconclusive by rule (DESIGN.md §2.2).
				r.Verdict = Inconclusive
				r.Detail = "allocation failure on a declared size above the cap: " + tail(firstLines(out, 6), 600)
			case strings.Contains(out, "out of memory") || strings.Contains(out, "cannot allocate memory"):
				// Decided by the check: it gets the raw information.
				r.Verdict = Violated
				r.Sig = CrashSig("oom", frame, "out of memory")
				r.Detail = tail(out, 3000)
			case o.CrashIsViolation:
				r.Verdict = Violated
				r.Sig = CrashSig("fatal", frame, msg)
				r.Detail = fmt.Sprintf("worker died (%v): %s", werr, tail(firstLines(out, 60), 3000))
			default:
				r.Verdict = Inconclusive
				r.Detail = fmt.Sprintf("worker died (%v): %s", werr, tail(out, 1500))
			}
			results[inflight] = r
			done[inflight] = true
		} else {
			// Died between cases or before starting: find first not done.
			nf := -1
			for _, c := range b.cases {
				if !done[c.Idx] {
					nf = c.Idx
					break
				}
			}
			if nf < 0 {
				return
			}
			if attempts > len(b.cases)+3 {
				for _, c := range b.cases {
					if !done[c.Idx] {
						results[c.Idx] = Result{Idx: c.Idx, Verdict: Inconclusive, Detail: "worker could not be started: " + tail(out, 500)}
					}
				}
				return
			}
			if werr != nil && inflight == -1 {
				// Possibly a start-up failure; mark one case to avoid spinning.
				results[nf] = Result{Idx: nf, Verdict: Inconclusive, Detail: fmt.Sprintf("worker failed before the case (%v): %s", werr, tail(out, 800))}
				done[nf] = true
			}
		}
		// Skip cases already done.
		for pos < len(b.cases) && done[b.cases[pos].Idx] {
			pos++
		}
	}
}

// groupCPUTicks sums utime+stime (clock ticks) of every process whose
// process group is pgid; -1 if none is found.
func groupCPUTicks(pgid int) int64 {
	ents, err := os.ReadDir("/proc")
	if err != nil {
		return -1
	}
	var sum int64
	found := false
	for _, e := range ents {
		n := e.Name()
		if n[0] < '0' || n[0] > '9' {
			continue
		}
		b, err := os.ReadFile("/proc/" + n + "/stat")
		if err != nil {
			continue
		}
		st := string(b)
		i := strings.LastIndexByte(st, ')')
		if i < 0 {
			continue
		}
		f := strings.Fields(st[i+1:])
		// f[0]=state f[1]=ppid f[2]=pgrp ... f[11]=utime f[12]=stime
		if len(f) < 13 {
			continue
		}
		if pg, _ := strconv.Atoi(f[2]); pg != pgid {
			continue
		}
		ut, _ := strconv.ParseInt(f[11], 10, 64)
		stt, _ := strconv.ParseInt(f[12], 10, 64)
		sum += ut + stt
		found = true
	}
	if !found {
		return -1
	}
	return sum
}

func isRlimitCPU(err error) bool {
	if ee, ok := err.(*exec.ExitError); ok {
		if ws, ok := ee.Sys().(syscall.WaitStatus); ok {
			if ws.Signaled() {
				return ws.Signal() == syscall.SIGXCPU
			}
			return ws.ExitStatus() == 97
		}
	}
	return false
}

func firstLines(s string, n int) string {
	lines := strings.Split(s, "\n")
	if len(lines) > n {
		lines = lines[:n]
	}
	return strings.Join(lines, "\n")
}

func tail(s string, n int) string {
	if len(s) > n {
		return "…" + s[len(s)-n:]
	}
	return s
}

// parseCrash extracts the fatal message and top gopar frame from a Go
// crash dump.
func parseCrash(out string) (msg, frame string) {
	msg = "died"
	lines := strings.Split(out, "\n")
	start := 0
	for i, l := range lines {
		if strings.HasPrefix(l, "panic: ") || strings.HasPrefix(l, "fatal error: ") || strings.HasPrefix(l, "unexpected fault address") || strings.HasPrefix(l, "SIG") || strings.Contains(l, "WARNING: DATA RACE") || strings.HasPrefix(l, "runtime: out of memory") {
			msg = l
			start = i
			if strings.HasPrefix(l, "unexpected fault address") {
				msg = "unexpected fault address"
			}
			break
		}
	}
	frame = TopGoparFrame(strings.Join(lines[start:], "\n"))
	return
}

// ---------------------------------------------------------------------
// Known findings.

// Finding is one entry of KNOWN_FINDINGS.txt.
type Finding struct {
	Kind     string // "finding" or "fixed"
	Property string
	Sig      string
	Text     string
}

// LoadFindings parses KNOWN_FINDINGS.txt.
func LoadFindings() []Finding {
	var fs []Finding
	b, err := os.ReadFile(filepath.Join(VerifDir, "KNOWN_FINDINGS.txt"))
	if err != nil {
		return nil
	}
	for _, line := range strings.Split(string(b), "\n") {
		line = strings.TrimSpace(line)
		if strings.HasPrefix(line, "finding:") {
			rest := strings.TrimSpace(strings.TrimPrefix(line, "finding:"))
			f := Finding{Kind: "finding"}
			parts := strings.SplitN(rest, "::", 2)
			if len(parts) == 2 {
				f.Text = strings.TrimSpace(parts[1])
			}
			head := strings.TrimSpace(parts[0])
			if i := strings.Index(head, "sig="); i >= 0 {
				f.Sig = strings.TrimSpace(head[i+4:])
				head = head[:i]
			}
			for _, fld := range strings.Fields(head) {
				if strings.HasPrefix(fld, "property=") {
					f.Property = strings.TrimPrefix(fld, "property=")
				}
			}
			fs = append(fs, f)
		}
	}
	return fs
}

// ---------------------------------------------------------------------
// Aggregation, evidence, exit code.

// Summary aggregates results.
type Summary struct {
	Evaluations  int
	Held         int
	Violations   []Result
	Known        []Result
	Inconclusive []Result
	Distinct     map[string]bool
	Counters     map[string]int64
	Sets         map[string]map[string]bool
	Samples      []interface{}
}

// Finish aggregates, prints verdict lines, writes evidence and replay
// files and returns the process exit code.
func Finish(ck Check, tier string, seed int64, cases []Case, results []Result, started time.Time) int {
	id := ck.ID()
	findings := LoadFindings()
	sum := Summary{Distinct: map[string]bool{}, Counters: map[string]int64{}, Sets: map[string]map[string]bool{}}
	sum.Evaluations = len(cases)
	knownPrinted := map[string]bool{}
	exit := 0
	replayDir := filepath.Join(VerifDir, "replays")
	for i, r := range results {
		for _, k := range r.Keys {
			sum.Distinct[k] = true
		}
		for k, v := range r.Counters {
			sum.Counters[k] += v
		}
		for k, ms := range r.Sets {
			if sum.Sets[k] == nil {
				sum.Sets[k] = map[string]bool{}
			}
			for _, m := range ms {
				sum.Sets[k][m] = true
			}
		}
		if r.Sample != nil && len(sum.Samples) < 6 && (i%max(1, len(results)/6) == 0 || len(sum.Samples) == 0) {
			sum.Samples = append(sum.Samples, r.Sample)
		}
		switch r.Verdict {
		case Held:
			sum.Held++
		case Inconclusive:
			sum.Inconclusive = append(sum.Inconclusive, r)
		case Violated:
			all := append([]SubViolation{{r.Sig, r.Detail}}, r.More...)
			unknown := false
			for _, v := range all {
				if f := matchFinding(findings, id, v.Sig); f != nil {
					if !knownPrinted[f.Sig] {
						knownPrinted[f.Sig] = true
						fmt.Printf("KNOWN-FINDING: property=%s %s [sig=%s; witnessed in case %q]\n", id, f.Text, f.Sig, cases[i].Name)
					}
				} else {
					unknown = true
				}
			}
			if unknown {
				sum.Violations = append(sum.Violations, r)
			} else {
				sum.Known = append(sum.Known, r)
			}
		default:
			sum.Inconclusive = append(sum.Inconclusive, Result{Idx: i, Verdict: Inconclusive, Detail: "no result recorded"})
		}
	}
	// Replay files for violations.
	if len(sum.Violations) > 0 {
		os.MkdirAll(replayDir, 0755)
		printed := map[string]bool{}
		for _, r := range sum.Violations {
			c := cases[r.Idx]
			rep := map[string]interface{}{"property": id, "tier": tier, "seed": seed, "case": c, "result": r}
			b, _ := json.MarshalIndent(rep, "", " ")
			h := sha256.Sum256(b)
			p := filepath.Join(replayDir, fmt.Sprintf("%s-%s.json", id, hex.EncodeToString(h[:6])))
			os.WriteFile(p, b, 0644)
			all := append([]SubViolation{{r.Sig, r.Detail}}, r.More...)
			for _, v := range all {
				if matchFinding(findings, id, v.Sig) != nil || printed[v.Sig] {
					continue
				}
				printed[v.Sig] = true
				if len(printed) <= 25 {
					fmt.Printf("VIOLATION property=%s replay=%s\n", id, p)
					fmt.Printf("  sig=%s\n  case=%s\n  %s\n", v.Sig, c.Name, indent(trunc(v.Detail, 1500)))
				}
			}
		}
		fmt.Printf("%s: %d violating case(s), %d distinct signature(s)\n", id, len(sum.Violations), len(printed))
		exit = 1
	}
	// Observed-nothing guard.
	nontrivial := len(sum.Distinct)
	if exit == 0 && (sum.Evaluations == 0 || nontrivial < 2) {
		fmt.Printf("INCONCLUSIVE property=%s: the monitors observed nothing (evaluations=%d distinct_nontrivial=%d)\n", id, sum.Evaluations, nontrivial)
		exit = 2
	}
	if exit == 0 && len(sum.Inconclusive)*2 > sum.Evaluations {
		fmt.Printf("INCONCLUSIVE property=%s: %d of %d cases inconclusive, e.g. %s\n", id, len(sum.Inconclusive), sum.Evaluations, trunc(sum.Inconclusive[0].Detail, 600))
		exit = 2
	}
	writeEvidence(ck, tier, seed, sum, cases, started)
	fmt.Printf("%s tier=%s seed=%d: evaluations=%d held=%d known=%d violated=%d inconclusive=%d distinct_nontrivial=%d wall=%.1fs\n",
		id, tier, seed, sum.Evaluations, sum.Held, len(sum.Known), len(sum.Violations), len(sum.Inconclusive), nontrivial, time.Since(started).Seconds())
	keys := make([]string, 0, len(sum.Counters))
	for k := range sum.Counters {
		keys = append(keys, k)
	}
	sort.Strings(keys)
	for _, k := range keys {
		fmt.Printf("  observed %s = %d\n", k, sum.Counters[k])
	}
	for k, s := range sum.Sets {
		fmt.Printf("  observed distinct %s = %d\n", k, len(s))
	}
	for i, r := range sum.Inconclusive {
		if i >= 3 {
			break
		}
		fmt.Printf("  inconclusive case %d: %s\n", r.Idx, trunc(r.Detail, 300))
	}
	return exit
}

func indent(s string) string { return strings.ReplaceAll(s, "\n", "\n  ") }

func matchFinding(fs []Finding, id, sig string) *Finding {
	for i := range fs {
		if fs[i].Kind == "finding" && fs[i].Property == id && fs[i].Sig == sig {
			return &fs[i]
		}
	}
	return nil
}

func writeEvidence(ck Check, tier string, seed int64, sum Summary, cases []Case, started time.Time) {
	o := ck.Opts()
	cov := map[string]interface{}{
		"evaluations":         sum.Evaluations,
		"distinct_nontrivial": len(sum.Distinct),
		"rule":                ck.Rule(),
		"samples":             sum.Samples,
		"verdicts": map[string]int{
			"held": sum.Held, "violated": len(sum.Violations), "known_finding": len(sum.Known), "inconclusive": len(sum.Inconclusive),
		},
		"monitor_counters": sum.Counters,
	}
	if len(sum.Samples) == 0 {
		// Fall back to case names so that samples is never empty.
		var s []interface{}
		for i := 0; i < len(cases) && i < 3; i++ {
			s = append(s, cases[i])
		}
		cov["samples"] = s
	}
	sets := map[string]interface{}{}
	for k, s := range sum.Sets {
		ms := make([]string, 0, len(s))
		for m := range s {
			ms = append(ms, m)
		}
		sort.Strings(ms)
		ex := ms
		if len(ex) > 12 {
			ex = ex[:12]
		}
		sets[k] = map[string]interface{}{"distinct": len(ms), "examples": ex}
	}
	cov["observed_sets"] = sets
	if o.Exhaustive {
		cov["exhaustive"] = true
	}
	for k, v := range o.Extra {
		cov[k] = v
	}
	var inc []string
	for i, r := range sum.Inconclusive {
		if i >= 5 {
			break
		}
		inc = append(inc, fmt.Sprintf("case %d: %s", r.Idx, trunc(r.Detail, 300)))
	}
	if len(inc) > 0 {
		cov["inconclusive_samples"] = inc
	}
	var known []string
	seen := map[string]bool{}
	for _, r := range sum.Known {
		if !seen[r.Sig] {
			seen[r.Sig] = true
			known = append(known, r.Sig)
		}
	}
	if len(known) > 0 {
		cov["known_findings_witnessed"] = known
	}
	ev := map[string]interface{}{
		"property_id": ck.ID(),
		"tier":        tier,
		"seed":        seed,
		"level":       ck.Level(),
		"coverage":    cov,
		"assumptions": ck.Assumptions(),
		"wall_s":      time.Since(started).Seconds(),
		"violations":  len(sum.Violations),
	}
	b, _ := json.MarshalIndent(ev, "", " ")
	dir := filepath.Join(VerifDir, "evidence")
	os.MkdirAll(dir, 0755)
	os.WriteFile(filepath.Join(dir, ck.ID()+".json"), append(b, '\n'), 0644)
}

func max(a, b int) int {
	if a > b {
		return a
	}
	return b
}

// RaceLogPath returns the race detector log of this process (GORACE
// log_path=<prefix> produces <prefix>.<pid>), or "".
func RaceLogPath() string {
	for _, f := range strings.Fields(os.Getenv("GORACE")) {
		if strings.HasPrefix(f, "log_path=") {
			return fmt.Sprintf("%s.%d", strings.TrimPrefix(f, "log_path="), os.Getpid())
		}
	}
	return ""
}

func raceLogSize() int64 {
	p := RaceLogPath()
	if p == "" {
		return 0
	}
	st, err := os.Stat(p)
	if err != nil {
		return 0
	}
	return st.Size()
}

// raceReportsSince returns the report blocks appended to this process's
// race log after offset off.
func raceReportsSince(off int64) []string {
	p := RaceLogPath()
	if p == "" {
		return nil
	}
	b, err := os.ReadFile(p)
	if err != nil || int64(len(b)) <= off {
		return nil
	}
	var out []string
	for _, blk := range strings.Split(string(b[off:]), "==================") {
		if strings.Contains(blk, "WARNING: DATA RACE") {
			out = append(out, blk)
		}
	}
	return out
}

// RaceSig deduplicates a race report by the gopar frames involved.
func RaceSig(report string) string {
	var frames []string
	seen := map[string]bool{}
	for _, line := range strings.Split(report, "\n") {
		line = strings.TrimSpace(line)
		if strings.HasPrefix(line, "github.com/akalin/gopar/") {
			f := strings.TrimPrefix(line, "github.com/akalin/gopar/")
			if i := strings.Index(f, "("); i > 0 {
				f = f[:i]
			}
			if !seen[f] {
				seen[f] = true
				frames = append(frames, f)
			}
		}
		if len(frames) >= 4 {
			break
		}
	}
	return "data-race|" + strings.Join(frames, ",")
}
