package checks

import (
	"encoding/binary"
	"fmt"
	"math/rand"
	"os"
	"path/filepath"
	"sort"
	"strings"

	"github.com/akalin/gopar/par1"
	"github.com/akalin/gopar/par2"

	"verifharness/internal/core"
	"verifharness/internal/mon"
	"verifharness/internal/ref/par1rw"
	"verifharness/internal/ref/par2rw"
	"verifharness/internal/scen"
)

// C13 — corruption, truncation and interrupted writes never crash or mislead.

type c13 struct{ base }

type c13Params struct {
	Seed     int64  `json:"seed"`
	Fmt      string `json:"fmt"`
	Family   string `json:"family"` // truncate | bitflip-header | bitflip-payload | garbage | subsets | crash-points
	Target   int    `json:"target"` // index into the sorted list of archive+data files (-1 = n/a)
	Thorough bool   `json:"thorough,omitempty"`
}

func init() {
	register(&c13{base{
		id:          "C13",
		level:       lvlFaultEnum,
		rule:        "for seeded small sets (PAR2: 2-3 files, 3-5 blocks; PAR1: 3 files, 3 volumes) and EACH file of the set (index, every recovery/parity volume, every data file) the following fault families are enumerated: truncation at every packet boundary, every header-field boundary, offset 0 and sampled payload offsets; a flip of every bit of every header field (incl. the PAR2 length field outside the packet MD5 and the PAR1 fields before 0x20) and seeded payload bits; garbage overwrite and emptying; deletion of every subset of the set's files; crash points: the actual write sequence of Create is recorded (also: a re-Create over an OLDER archive of the same recovery set ID, interrupted after every prefix, with data damage that forces the stale blocks into use) through the file-system seam and every prefix of it is materialised with the last file torn at every packet boundary, at 0 bytes and at sampled inner offsets. After each fault the real Verify and Repair run in a resource-capped child: they must return normally; a Verify result must not claim more usable slices/files than a brute-force finder locates in the bytes on disk, nor more recovery blocks/volumes than the reference reader finds intact, nor 'no repair needed' unless every file is identical; Repair may only create or change protected files and only to their exact original bytes. A key is (format, family, target file, fault coordinate). Every judged state is additionally repaired with the double check on a copy of the directory (every state Verify accepts, every eighth it refuses). Family subsets also turns each protected file into a dangling symbolic link into a deleted directory. Family subsets also drives ONE Decoder object through load / change of the directory / load again (counts must equal a fresh Verify) and through a failed write followed by a second Repair on the same object.",
		assumptions: append([]string{"faults are single (one file damaged per case) except for the subset and crash-point families"}, commonAssumptions...),
		opts:        core.WorkerOpts{CrashIsViolation: true, ASLimitMiB: 4096, WallSeconds: 2400},
	}})
}

func (c *c13) Cases(tier string, seed int64) []core.Case {
	var cs []core.Case
	r := core.Rng("C13", tier, seed)
	nsets := map[string]int{"quick": 2, "thorough": 20}[tier]
	for _, f := range []string{"par2", "par1"} {
		for s := 0; s < nsets; s++ {
			sd := r.Int63()
			// up to 12 targets (files of the set); the worker clips to what exists
			for t := 0; t < 12; t++ {
				for _, fam := range []string{"truncate", "bitflip-header", "bitflip-payload", "garbage"} {
					cs = append(cs, core.MkCase(fmt.Sprintf("%s-set%d-%s-t%d", f, s, fam, t), c13Params{sd, f, fam, t, tier == "thorough"}))
				}
			}
			cs = append(cs, core.MkCase(fmt.Sprintf("%s-set%d-bigfile", f, s), c13Params{sd, f, "bigfile", -1, tier == "thorough"}))
			cs = append(cs, core.MkCase(fmt.Sprintf("%s-set%d-crash-points-over-older-archive", f, s), c13Params{sd, f, "crash-stale", -1, tier == "thorough"}))
			cs = append(cs, core.MkCase(fmt.Sprintf("%s-set%d-subsets", f, s), c13Params{sd, f, "subsets", -1, tier == "thorough"}))
			cs = append(cs, core.MkCase(fmt.Sprintf("%s-set%d-crash-points", f, s), c13Params{sd, f, "crash-points", -1, tier == "thorough"}))
		}
	}
	return cs
}

// hostileEnv is a pristine archive directory kept in memory.
type hostileEnv struct {
	fmt        string
	root, dir  string
	idx        string
	names      []string          // sorted relative names of all files (archive + data)
	pristine   map[string][]byte // relative name -> bytes
	data       map[string][]byte // protected relative name -> original bytes
	set        scen.Set
	setID      [16]byte
	sub        int
	createSeq  []mon.IOEvent
	createData map[string][]byte
}

func (h *hostileEnv) close() { os.RemoveAll(h.root) }

// hostileBigFile makes the first data file larger than 16 KiB.
var hostileBigFile bool

func newHostileEnv(format string, seed int64) (*hostileEnv, error) {
	rng := rand.New(rand.NewSource(seed))
	root, err := os.MkdirTemp("", "c13-")
	if err != nil {
		return nil, err
	}
	h := &hostileEnv{fmt: format, root: root, dir: filepath.Join(root, "set"), pristine: map[string][]byte{}, data: map[string][]byte{}}
	if format == "par2" {
		slice := []int{8, 16, 64}[rng.Intn(3)]
		if hostileBigFile {
			slice = 2000
		}
		set := scen.Set{SliceSize: slice, Blocks: 3 + rng.Intn(3), Content: "random"}
		nf := 2 + rng.Intn(2)
		for i := 0; i < nf; i++ {
			n := scen.SizeAround(rng, slice, false)
			if i == 0 {
				n = 3*slice + 1 + rng.Intn(slice)
				if hostileBigFile {
					n = 16384 + 2000 + rng.Intn(3000)
				}
			} else if i == nf-1 {
				// the last file fits one slice
				n = 1 + (n-1)%slice
			}
			set.Files = append(set.Files, scen.File{Name: []string{"a.bin", "sub/b.bin", "c c.txt"}[i], Data: scen.GenData(rng, "random", n, slice)})
		}
		// The first file ends in a run of zero bytes inside its short last
		// slice, so truncation inside that run leaves every slice findable.
		{
			d := set.Files[0].Data
			z := 2 + rng.Intn(slice/2)
			if z > len(d)%slice-1 {
				z = len(d)%slice - 1
			}
			for i := 0; i < z; i++ {
				d[len(d)-1-i] = 0
			}
		}
		h.set = set
		paths, err := set.Materialize(h.dir)
		if err != nil {
			return h, err
		}
		h.idx = filepath.Join(h.dir, "arch.par2")
		rec := &mon.RecFS{Inner: par2.VerifDefaultFileIO{}}
		if err := par2.VerifCreate(rec, h.idx, paths, par2.CreateOptions{SliceByteCount: slice, NumParityShards: set.Blocks, NumGoroutines: 2}); err != nil {
			return h, err
		}
		h.createSeq = rec.Writes()
		var in []par2rw.InFile
		for _, f := range set.Files {
			in = append(in, par2rw.InFile{Name: f.Name, Data: f.Data})
			h.data[filepath.FromSlash(f.Name)] = f.Data
		}
		h.setID = par2rw.BuildSet(slice, in).SetID
	} else {
		files := genP1Files(rng, 3)
		for i := range files {
			if len(files[i].Data) > 500 {
				files[i].Data = files[i].Data[:500]
			}
		}
		if hostileBigFile {
			files[0].Data = scen.GenData(rng, "random", 16384+1000+rng.Intn(3000), 16)
		}
		h.set = scen.Set{Files: files, Blocks: 3, SliceSize: 4}
		os.MkdirAll(h.dir, 0755)
		var paths []string
		for _, f := range files {
			p := filepath.Join(h.dir, f.Name)
			os.WriteFile(p, f.Data, 0644)
			paths = append(paths, p)
			h.data[f.Name] = f.Data
		}
		h.idx = filepath.Join(h.dir, "arch.par")
		rec := &mon.RecFS{Inner: par1.VerifDefaultFileIO{}}
		if err := par1.VerifCreate(rec, h.idx, paths, par1.CreateOptions{NumParityFiles: 3}); err != nil {
			return h, err
		}
		h.createSeq = rec.Writes()
	}
	filepath.Walk(h.dir, func(p string, info os.FileInfo, err error) error {
		if err == nil && info.Mode().IsRegular() {
			rel, _ := filepath.Rel(h.dir, p)
			b, _ := os.ReadFile(p)
			h.pristine[rel] = b
			h.names = append(h.names, rel)
		}
		return nil
	})
	sort.Strings(h.names)
	return h, nil
}

// restore puts every file back to its pristine bytes.
func (h *hostileEnv) restore() {
	// remove anything extra
	filepath.Walk(h.dir, func(p string, info os.FileInfo, err error) error {
		if err == nil && info.Mode().IsRegular() {
			rel, _ := filepath.Rel(h.dir, p)
			if _, ok := h.pristine[rel]; !ok {
				os.Remove(p)
			}
		}
		return nil
	})
	for rel, b := range h.pristine {
		p := filepath.Join(h.dir, rel)
		cur, err := os.ReadFile(p)
		if err != nil || string(cur) != string(b) {
			os.MkdirAll(filepath.Dir(p), 0755)
			os.WriteFile(p, b, 0644)
		}
	}
}

// truth computes what is really on disk.
type hostileTruth struct {
	findableSlices int // PAR2
	identicalFiles int // both
	allIdentical   bool
	intactBlocks   int // PAR2 distinct intact exponents / PAR1 intact volumes
	totalSlices    int
}

func (h *hostileEnv) truth() hostileTruth {
	var t hostileTruth
	t.allIdentical = true
	st := scen.NewState(h.set)
	for i, f := range h.set.Files {
		b, err := os.ReadFile(filepath.Join(h.dir, filepath.FromSlash(f.Name)))
		if err != nil {
			st.Cur[i] = scen.CurFile{Present: false}
			t.allIdentical = false
			continue
		}
		if string(b) == string(f.Data) {
			t.identicalFiles++
		} else {
			t.allIdentical = false
		}
		st.Cur[i] = scen.CurFile{Present: true, Segs: []scen.Seg{{F: -1, Len: len(b), G: b}}}
	}
	if h.fmt == "par2" {
		findable, _ := st.Find()
		t.findableSlices = len(findable)
		t.totalSlices = h.set.TotalSlices()
		seen := map[uint32]bool{}
		ents, _ := os.ReadDir(h.dir)
		for _, en := range ents {
			n := en.Name()
			if strings.HasPrefix(n, "arch.") && strings.HasSuffix(n, ".par2") && n != "arch.par2" {
				b, _ := os.ReadFile(filepath.Join(h.dir, n))
				for _, p := range par2rw.ParseLenient(b) {
					if p.Type == par2rw.TypeRecv && p.SetID == h.setID {
						if rv, err := par2rw.DecodeRecv(p.Body); err == nil && len(rv.Data) == h.set.SliceSize {
							seen[rv.Exp] = true
						}
					}
				}
			}
		}
		t.intactBlocks = len(seen)
	} else {
		for v := 1; v <= 99; v++ {
			b, err := os.ReadFile(filepath.Join(h.dir, fmt.Sprintf("arch.p%02d", v)))
			if err != nil {
				continue
			}
			if vol, problems := par1rw.Parse(b); vol != nil && len(problems) == 0 && vol.VolumeNumber == uint64(v) {
				t.intactBlocks++
			}
		}
	}
	return t
}

func (h *hostileEnv) judgeStale(r *core.R, k, n int, seq []string, ndamage int, rel0 string) {
	h.judge(r, fmt.Sprintf("re-Create over an older archive interrupted after %d of %d writes (%v new; older: %v); %d damaged regions beyond 16 KiB in %s", k, n, seq[:k], seq[k:], ndamage, rel0))
}

// judge runs Verify and Repair on the current directory state.
func (h *hostileEnv) judge(r *core.R, what string) {
	h.sub++
	if !core.Sub(h.sub) {
		return
	}
	tr := h.truth()
	core.Note("C13 %s %s", h.fmt, what)
	before := scen.Snapshot(h.root)
	verifyRefused := false
	// Verify
	if h.fmt == "par2" {
		var vr par2.VerifyResult
		var err error
		if pi := core.Protect(func() { vr, err = par2.Verify(h.idx, par2.VerifyOptions{NumGoroutines: 2}) }); pi != nil {
			r.Violate(core.CrashSig("par2.Verify", pi.Frame, pi.Msg), "%s: Verify panicked: %s\n%s", what, pi.Msg, trunc2(pi.Stack, 1200))
		} else if err == nil {
			r.Count("verify_results", 1)
			sh := vr.ShardCounts
			if sh.UsableDataShardCount > tr.findableSlices {
				r.Violate("usable-slices-exceed-findable", "%s: Verify counts %d usable slices, brute-force finder locates %d", what, sh.UsableDataShardCount, tr.findableSlices)
			}
			if sh.UsableParityShardCount > tr.intactBlocks {
				r.Violate("usable-blocks-exceed-intact", "%s: Verify counts %d usable recovery blocks, reference reader finds %d intact", what, sh.UsableParityShardCount, tr.intactBlocks)
			}
			if !sh.RepairNeeded() && !tr.allIdentical {
				r.Violate("verify-clean-but-files-differ", "%s: RepairNeeded()==false but only %d of %d files are identical", what, tr.identicalFiles, len(h.set.Files))
			}
		} else {
			r.Count("verify_errors", 1)
			verifyRefused = true
		}
	} else {
		var vr par1.VerifyResult
		var err error
		if pi := core.Protect(func() { vr, err = par1.Verify(h.idx, par1.VerifyOptions{VerifyAllData: true}) }); pi != nil {
			r.Violate(core.CrashSig("par1.Verify", pi.Frame, pi.Msg), "%s: Verify panicked: %s\n%s", what, pi.Msg, trunc2(pi.Stack, 1200))
		} else if err == nil {
			r.Count("verify_results", 1)
			fc := vr.FileCounts
			if fc.UsableDataFileCount > tr.identicalFiles {
				r.Violate("usable-files-exceed-identical", "%s: Verify counts %d usable data files, %d are identical", what, fc.UsableDataFileCount, tr.identicalFiles)
			}
			if fc.UsableParityFileCount > tr.intactBlocks {
				r.Violate("usable-volumes-exceed-intact", "%s: Verify counts %d usable parity volumes, reference reader validates %d", what, fc.UsableParityFileCount, tr.intactBlocks)
			}
			if !fc.RepairNeeded() && !tr.allIdentical {
				r.Violate("verify-clean-but-files-differ", "%s: RepairNeeded()==false but files differ", what)
			}
		} else {
			r.Count("verify_errors", 1)
			verifyRefused = true
		}
	}
	if d := scen.DiffSnap(before, scen.Snapshot(h.root)); len(d) > 0 {
		r.Violate("verify-modified-directory", "%s: %v", what, d)
	}
	// Repair with the double check, on a copy of the directory (the plain
	// Repair below gets the state itself).
	// (when Verify refused the archive outright, only every eighth state is
	// tried: Repair refuses those the same way)
	if !verifyRefused || h.sub%8 == 0 {
		cp := filepath.Join(h.root, "dc-copy")
		os.RemoveAll(cp)
		if copyTree(h.dir, cp) == nil {
			cidx := filepath.Join(cp, filepath.Base(h.idx))
			var derr error
			var dpi *core.PanicInfo
			if h.fmt == "par2" {
				dpi = core.Protect(func() { _, derr = par2.Repair(cidx, par2.RepairOptions{NumGoroutines: 3, DoubleCheck: true}) })
			} else {
				dpi = core.Protect(func() { _, derr = par1.Repair(cidx, par1.RepairOptions{DoubleCheck: true}) })
			}
			if dpi != nil {
				r.Violate(core.CrashSig(h.fmt+".Repair", dpi.Frame, dpi.Msg), "%s: Repair with double check panicked: %s\n%s", what, dpi.Msg, trunc2(dpi.Stack, 1200))
			} else if derr == nil {
				for rel, orig := range h.data {
					b, err := os.ReadFile(filepath.Join(cp, rel))
					if err != nil || string(b) != string(orig) {
						r.Violate("repair-nil-but-files-differ", "%s: Repair with double check returned nil but %s is not the original", what, rel)
					}
				}
			}
			r.Count("double_check_repairs", 1)
		}
		os.RemoveAll(cp)
	}
	// Repair
	var rerr error
	var pi *core.PanicInfo
	if h.fmt == "par2" {
		pi = core.Protect(func() { _, rerr = par2.Repair(h.idx, par2.RepairOptions{NumGoroutines: 2}) })
	} else {
		pi = core.Protect(func() { _, rerr = par1.Repair(h.idx, par1.RepairOptions{}) })
	}
	if pi != nil {
		r.Violate(core.CrashSig(h.fmt+".Repair", pi.Frame, pi.Msg), "%s: Repair panicked: %s\n%s", what, pi.Msg, trunc2(pi.Stack, 1200))
	} else if rerr == nil {
		r.Count("repair_ok", 1)
		// nil means everything is in order now
		for rel, orig := range h.data {
			b, err := os.ReadFile(filepath.Join(h.dir, rel))
			if err != nil || string(b) != string(orig) {
				r.Violate("repair-nil-but-files-differ", "%s: Repair returned nil but %s is not the original", what, rel)
			}
		}
	} else {
		r.Count("repair_errors", 1)
	}
	for _, d := range scen.DiffSnap(before, scen.Snapshot(h.root)) {
		parts := strings.SplitN(d, " ", 2)
		rel, _ := filepath.Rel("set", parts[1])
		orig, ok := h.data[rel]
		if !ok {
			r.Violate("repair-touched-non-protected-file", "%s: %s", what, d)
			continue
		}
		b, err := os.ReadFile(filepath.Join(h.dir, rel))
		if err != nil || string(b) != string(orig) {
			r.Violate("repair-wrote-non-original-bytes", "%s: %s, content is not the protected original", what, d)
		}
	}
	r.Count("faults_judged", 1)
}

func trunc2(s string, n int) string {
	if len(s) > n {
		return s[:n]
	}
	return s
}

// fieldBoundaries returns interesting offsets of an archive file:
// packet/entry boundaries and header-field boundaries, and the list of
// header byte ranges.
func archiveStructure(format string, b []byte) (bounds []int, headerRanges [][2]int) {
	add := func(o int) {
		if o >= 0 && o <= len(b) {
			bounds = append(bounds, o)
		}
	}
	if format == "par2" {
		off := 0
		for off+64 <= len(b) {
			l := int(binary.LittleEndian.Uint64(b[off+8:]))
			if l < 64 || off+l > len(b) {
				break
			}
			for _, f := range []int{0, 8, 16, 32, 48, 64} {
				add(off + f)
			}
			hdrEnd := off + 64
			typ := string(b[off+48 : off+64])
			switch {
			case strings.Contains(typ, "Main"):
				for _, f := range []int{72, 76, 92} {
					add(off + f)
				}
				hdrEnd = off + 76
			case strings.Contains(typ, "FileDesc"):
				for _, f := range []int{80, 96, 112, 120} {
					add(off + f)
				}
				hdrEnd = off + 120
			case strings.Contains(typ, "IFSC"):
				for _, f := range []int{80, 96, 100} {
					add(off + f)
				}
				hdrEnd = off + 80
			case strings.Contains(typ, "RecvSlic"):
				add(off + 68)
				hdrEnd = off + 68
			}
			if hdrEnd > off+l {
				hdrEnd = off + l
			}
			headerRanges = append(headerRanges, [2]int{off, hdrEnd})
			off += l
			add(off)
		}
	} else {
		for _, f := range []int{0, 8, 16, 32, 48, 56, 64, 72, 80, 88, 96} {
			add(f)
		}
		headerRanges = append(headerRanges, [2]int{0, minInt(96, len(b))})
		if len(b) >= 96 {
			n := int(binary.LittleEndian.Uint64(b[0x38:]))
			off := 96
			for i := 0; i < n && off+56 <= len(b); i++ {
				el := int(binary.LittleEndian.Uint64(b[off:]))
				for _, f := range []int{0, 8, 16, 24, 40, 56} {
					add(off + f)
				}
				headerRanges = append(headerRanges, [2]int{off, off + 56})
				if el < 58 || off+el > len(b) {
					break
				}
				off += el
				add(off)
			}
		}
	}
	add(0)
	add(len(b))
	sort.Ints(bounds)
	// dedupe
	out := bounds[:0]
	for i, v := range bounds {
		if i == 0 || v != bounds[i-1] {
			out = append(out, v)
		}
	}
	return out, headerRanges
}

func (c *c13) Run(cs core.Case) core.Result {
	var p c13Params
	core.Decode(cs, &p)
	r := core.NewR(cs)
	hostileBigFile = p.Family == "bigfile" || p.Family == "crash-stale"
	h, err := newHostileEnv(p.Fmt, p.Seed)
	hostileBigFile = false
	if h != nil {
		defer h.close()
	}
	if err != nil {
		r.Violate("create-failed", "%v", err)
		return r.Done()
	}
	rng := rand.New(rand.NewSource(p.Seed ^ int64(p.Target)*7919 ^ int64(len(p.Family))))
	write := func(rel string, b []byte) { os.WriteFile(filepath.Join(h.dir, rel), b, 0644) }
	isArchive := func(rel string) bool { _, isData := h.data[rel]; return !isData }
	switch p.Family {
	case "truncate", "bitflip-header", "bitflip-payload", "garbage":
		if p.Target >= len(h.names) {
			// fewer files than target slots: nothing to do, not counted
			r.Sample(map[string]interface{}{"skipped": "no such target"})
			return r.Done()
		}
		rel := h.names[p.Target]
		orig := h.pristine[rel]
		var bounds []int
		var hdr [][2]int
		if isArchive(rel) {
			bounds, hdr = archiveStructure(p.Fmt, orig)
		} else {
			// data files are small: every offset
			for o := 0; o <= len(orig); o++ {
				bounds = append(bounds, o)
			}
		}
		switch p.Family {
		case "truncate":
			offs := map[int]bool{}
			for _, b := range bounds {
				offs[b] = true
			}
			for i := 0; i < 25; i++ {
				if len(orig) > 0 {
					offs[rng.Intn(len(orig))] = true
				}
			}
			for _, b := range bounds {
				if b > 0 {
					offs[b-1] = true
				}
				offs[b+1] = true
			}
			var list []int
			for o := range offs {
				if o >= 0 && o < len(orig) {
					list = append(list, o)
				}
			}
			sort.Ints(list)
			for _, o := range list {
				h.restore()
				write(rel, orig[:o])
				h.judge(r, fmt.Sprintf("truncate %s at %d of %d", rel, o, len(orig)))
				r.Key("%s|truncate|%s|%d", p.Fmt, rel, o)
			}
		case "bitflip-header":
			if !isArchive(rel) {
				// data files have no header: flip bits of the first bytes
				hdr = [][2]int{{0, minInt(4, len(orig))}}
			}
			stride := 1
			total := 0
			for _, hr := range hdr {
				total += (hr[1] - hr[0]) * 8
			}
			if !p.Thorough && total > 2500 {
				stride = total/2500 + 1
			}
			n := 0
			for _, hr := range hdr {
				for o := hr[0]; o < hr[1]; o++ {
					for bit := 0; bit < 8; bit++ {
						n++
						// fields that no checksum covers are never sampled: the
						// PAR2 length field (bytes 8..15 of a packet header) and the
						// PAR1 fields before the control-hash range (bytes 0..31)
						unprotected := (p.Fmt == "par2" && isArchive(rel) && o-hr[0] >= 8 && o-hr[0] < 16) || (p.Fmt == "par1" && isArchive(rel) && o < 32)
						if n%stride != 0 && !unprotected {
							continue
						}
						h.restore()
						b := append([]byte(nil), orig...)
						b[o] ^= 1 << uint(bit)
						write(rel, b)
						h.judge(r, fmt.Sprintf("flip bit %d of byte %d of %s", bit, o, rel))
						r.Key("%s|bitflip|%s|%d.%d", p.Fmt, rel, o, bit)
					}
				}
			}
		case "bitflip-payload":
			n := 60
			if p.Thorough {
				n = 400
			}
			for i := 0; i < n && len(orig) > 0; i++ {
				o, bit := rng.Intn(len(orig)), rng.Intn(8)
				h.restore()
				b := append([]byte(nil), orig...)
				b[o] ^= 1 << uint(bit)
				write(rel, b)
				h.judge(r, fmt.Sprintf("flip bit %d of byte %d of %s (seeded)", bit, o, rel))
				r.Key("%s|bitflip|%s|%d.%d", p.Fmt, rel, o, bit)
			}
		case "garbage":
			variants := map[string][]byte{
				"emptied":        {},
				"all-garbage":    scen.Garbage(rng, len(orig)),
				"garbage-prefix": append(scen.Garbage(rng, minInt(len(orig), 20)), orig[minInt(len(orig), 20):]...),
				"garbage-suffix": append(append([]byte(nil), orig[:len(orig)/2]...), scen.Garbage(rng, len(orig)-len(orig)/2)...),
				"zeros":          make([]byte, len(orig)),
				"doubled":        append(append([]byte(nil), orig...), orig...),
				"junk-appended":  append(append([]byte(nil), orig...), scen.Garbage(rng, 37)...),
				"junk-prepended": append(scen.Garbage(rng, 4), orig...),
				"one-byte":       {0x50},
				"magic-only":     []byte("PAR2\x00PKT"),
			}
			var ks []string
			for k := range variants {
				ks = append(ks, k)
			}
			sort.Strings(ks)
			for _, k := range ks {
				h.restore()
				write(rel, variants[k])
				h.judge(r, fmt.Sprintf("%s: %s", k, rel))
				r.Key("%s|garbage|%s|%s", p.Fmt, rel, k)
			}
			h.restore()
			os.Remove(filepath.Join(h.dir, rel))
			h.judge(r, "deleted: "+rel)
			r.Key("%s|garbage|%s|deleted", p.Fmt, rel)
		}
		r.Sample(map[string]interface{}{"format": p.Fmt, "family": p.Family, "target": rel, "target_bytes": len(orig), "boundaries": len(bounds)})
	case "bigfile":
		// a data file larger than 16 KiB: the boundary of the first-16-KiB hash
		rel := filepath.FromSlash(h.set.Files[0].Name)
		orig := h.data[rel]
		for _, o := range []int{0, 1, 16383, 16384, 16385, 16384 - h.set.SliceSize, 16384 + h.set.SliceSize, len(orig) - 1, len(orig) / 2} {
			if o < 0 || o >= len(orig) {
				continue
			}
			h.restore()
			write(rel, orig[:o])
			h.judge(r, fmt.Sprintf("truncate %s (%d bytes) at %d", rel, len(orig), o))
			r.Key("%s|bigfile-truncate|%d", p.Fmt, o)
			for bit := 0; bit < 8; bit += 3 {
				h.restore()
				b := append([]byte(nil), orig...)
				b[o] ^= 1 << uint(bit)
				write(rel, b)
				h.judge(r, fmt.Sprintf("flip bit %d of byte %d of %s (%d bytes)", bit, o, rel, len(orig)))
				r.Key("%s|bigfile-flip|%d.%d", p.Fmt, o, bit)
			}
		}
		for _, extra := range [][]byte{{0}, {0, 0, 0}, scen.Garbage(rng, 1), scen.Garbage(rng, 2500)} {
			h.restore()
			write(rel, append(append([]byte(nil), orig...), extra...))
			h.judge(r, fmt.Sprintf("%d bytes appended to %s (%d bytes)", len(extra), rel, len(orig)))
			r.Key("%s|bigfile-append|%d|%d", p.Fmt, len(extra), extra[0])
		}
		r.Sample(map[string]interface{}{"format": p.Fmt, "family": "bigfile", "target": rel, "target_bytes": len(orig)})
	case "crash-stale":
		// The user edited a protected file (beyond its first 16 KiB, same
		// length) and re-ran Create over the older archive; that Create was
		// interrupted, so newer and older recovery files of the SAME recovery
		// set ID sit side by side. Then data gets damaged.
		rel0 := filepath.FromSlash(h.set.Files[0].Name)
		oldDir, err := os.MkdirTemp("", "c13-old-")
		if err != nil {
			r.Inconclusive("tempdir: %v", err)
			return r.Done()
		}
		defer os.RemoveAll(oldDir)
		oldSet := h.set
		oldSet.Files = append([]scen.File(nil), h.set.Files...)
		oldData := append([]byte(nil), h.set.Files[0].Data...)
		for k := 0; k < 40; k++ {
			oldData[16384+rng.Intn(len(oldData)-16384)] ^= byte(1 + rng.Intn(255))
		}
		oldSet.Files[0] = scen.File{Name: h.set.Files[0].Name, Data: oldData}
		oldPaths, _ := oldSet.Materialize(filepath.Join(oldDir, "set"))
		oldIdx := filepath.Join(oldDir, "set", filepath.Base(h.idx))
		var cerr error
		if p.Fmt == "par2" {
			cerr = par2.Create(oldIdx, oldPaths, par2.CreateOptions{SliceByteCount: h.set.SliceSize, NumParityShards: h.set.Blocks, NumGoroutines: 2})
		} else {
			cerr = par1.Create(oldIdx, oldPaths, par1.CreateOptions{NumParityFiles: 3})
		}
		if cerr != nil {
			r.Violate("create-failed", "older generation: %v", cerr)
			return r.Done()
		}
		var seqNames []string
		for _, w := range h.createSeq {
			rel, _ := filepath.Rel(h.dir, w.Path)
			seqNames = append(seqNames, rel)
		}
		orig0 := h.data[rel0]
		for k := 0; k <= len(seqNames); k++ {
			for _, ndamage := range []int{1, 2, 3} {
				h.restore()
				// files not yet rewritten still hold the older generation
				for j := k; j < len(seqNames); j++ {
					if b, err := os.ReadFile(filepath.Join(oldDir, "set", seqNames[j])); err == nil {
						write(seqNames[j], b)
					}
				}
				// damage ndamage slices of the edited file, all beyond 16 KiB
				b := append([]byte(nil), orig0...)
				s := h.set.SliceSize
				first := 16384/s + 1
				for d := 0; d < ndamage; d++ {
					off := (first + d) * s
					if p.Fmt == "par1" {
						off = 16384 + 100*d
					}
					if off+1 < len(b) {
						b[off+1] ^= 0x5a
					}
				}
				write(rel0, b)
				// Which content is "protected" is decided by the index file that
				// is on disk: before the first write it is still the older one.
				if k == 0 {
					h.data[rel0] = oldData
					h.set.Files[0].Data = oldData
				}
				func() {
					defer func() {
						h.data[rel0] = orig0
						h.set.Files[0].Data = orig0
					}()
					h.judgeStale(r, k, len(seqNames), seqNames, ndamage, rel0)
				}()
				r.Key("%s|crash-stale|%d|%d", p.Fmt, k, ndamage)
			}
		}
		r.Sample(map[string]interface{}{"format": p.Fmt, "family": "crash-stale", "write_sequence": seqNames, "edited_file_bytes": len(orig0)})
	case "subsets":
		n := len(h.names)
		if n > 10 {
			n = 10
		}
		for mask := 1; mask < 1<<uint(n); mask++ {
			h.restore()
			var del []string
			for i := 0; i < n; i++ {
				if mask&(1<<uint(i)) != 0 {
					os.Remove(filepath.Join(h.dir, h.names[i]))
					del = append(del, h.names[i])
				}
			}
			h.judge(r, fmt.Sprintf("deleted %v", del))
			r.Key("%s|subset|%d", p.Fmt, mask)
		}
		// a protected file that is a symbolic link into a directory which no
		// longer exists: it cannot be read and it cannot be written
		var rels []string
		for rel := range h.data {
			rels = append(rels, rel)
		}
		sort.Strings(rels)
		for _, rel := range rels {
			h.restore()
			pth := filepath.Join(h.dir, rel)
			os.Remove(pth)
			if os.Symlink(filepath.Join(h.root, "gone", "away", filepath.Base(rel)), pth) != nil {
				continue
			}
			h.judge(r, fmt.Sprintf("%s is a dangling symbolic link into a deleted directory", rel))
			os.Remove(pth)
			r.Key("%s|dangling|%s", p.Fmt, rel)
		}
		// One decoder object that outlives a change of the directory: it loads,
		// files or recovery files are deleted / damaged / come back, it loads
		// again - its counts must be those of a fresh Verify.
		var volNames []string
		for _, nme := range h.names {
			if _, isData := h.data[nme]; !isData && nme != filepath.Base(h.idx) {
				volNames = append(volNames, nme)
			}
		}
		write13 := func(rel string, b []byte) { os.WriteFile(filepath.Join(h.dir, rel), b, 0644) }
		muts := map[string]func(){
			"all recovery files deleted": func() {
				for _, v := range volNames {
					os.Remove(filepath.Join(h.dir, v))
				}
			},
			"first recovery file deleted": func() {
				if len(volNames) > 0 {
					os.Remove(filepath.Join(h.dir, volNames[0]))
				}
			},
			"a data file deleted": func() { os.Remove(filepath.Join(h.dir, rels[0])) },
			"a data file damaged": func() {
				b := append([]byte(nil), h.data[rels[len(rels)-1]]...)
				if len(b) > 0 {
					b[len(b)/2] ^= 0x08
				}
				write13(rels[len(rels)-1], b)
			},
		}
		var mnames []string
		for k := range muts {
			mnames = append(mnames, k)
		}
		sort.Strings(mnames)
		for _, mn := range mnames {
			h.restore()
			if p.Fmt == "par2" {
				p2DecoderReload(r, "par2: "+mn+" between two loads of one Decoder", h.idx, 2, muts[mn])
			} else {
				p1DecoderReload(r, "par1: "+mn+" between two loads of one Decoder", h.idx, muts[mn])
			}
			// and the other way round: damaged first, whole again before the reload
			h.restore()
			muts[mn]()
			if p.Fmt == "par2" {
				p2DecoderReload(r, "par2: ("+mn+") undone between two loads of one Decoder", h.idx, 2, h.restore)
			} else {
				p1DecoderReload(r, "par1: ("+mn+") undone between two loads of one Decoder", h.idx, h.restore)
			}
			r.Key("%s|decoder-reload|%s", p.Fmt, mn)
		}
		// a write that fails, then the same object is asked again
		for _, rel := range rels {
			if len(h.data[rel]) == 0 {
				continue
			}
			if p.Fmt == "par2" && (len(h.data[rel])+h.set.SliceSize-1)/h.set.SliceSize > h.set.Blocks {
				continue
			}
			h.restore()
			decoderRetryAfterFailedWrite(r, p.Fmt, h.idx, filepath.Join(h.dir, rel), h.data[rel], h.root)
			r.Key("%s|decoder-retry|%s", p.Fmt, rel)
		}
		h.restore()
		r.Sample(map[string]interface{}{"format": p.Fmt, "family": "subsets", "files": h.names[:n], "subsets": 1<<uint(n) - 1, "dangling_links": len(rels), "decoder_reload_mutations": mnames})
	case "crash-points":
		// The write sequence of Create, in order: for every prefix, the
		// last written file is torn.
		var seqNames []string
		for _, w := range h.createSeq {
			rel, _ := filepath.Rel(h.dir, w.Path)
			seqNames = append(seqNames, rel)
		}
		for k := 0; k < len(seqNames); k++ {
			last := seqNames[k]
			full := h.pristine[last]
			bounds, _ := archiveStructure(p.Fmt, full)
			offs := map[int]bool{0: true}
			for _, b := range bounds {
				offs[b] = true
			}
			for i := 0; i < 8 && len(full) > 0; i++ {
				offs[rng.Intn(len(full))] = true
			}
			var list []int
			for o := range offs {
				if o >= 0 && o <= len(full) {
					list = append(list, o)
				}
			}
			sort.Ints(list)
			for _, o := range list {
				h.restore()
				for j := k + 1; j < len(seqNames); j++ {
					os.Remove(filepath.Join(h.dir, seqNames[j]))
				}
				write(last, full[:o])
				h.judge(r, fmt.Sprintf("Create interrupted: writes %v complete, %s torn at %d of %d", seqNames[:k], last, o, len(full)))
				r.Key("%s|crash|%d|%d", p.Fmt, k, o)
				// and the same with one data file damaged, so that repair has work to do
				for rel := range h.data {
					b := append([]byte(nil), h.data[rel]...)
					if len(b) > 0 {
						b[len(b)/2] ^= 0x80
						write(rel, b)
					}
					break
				}
				h.judge(r, fmt.Sprintf("Create interrupted (+1 damaged data file): %s torn at %d of %d", last, o, len(full)))
			}
		}
		r.Sample(map[string]interface{}{"format": p.Fmt, "family": "crash-points", "write_sequence": seqNames})
	}
	return r.Done()
}
