package checks

import (
	"bytes"
	"fmt"
	"math/rand"
	"os"
	"path/filepath"

	"verifharness/internal/core"
	"verifharness/internal/ref/par1rw"
	"verifharness/internal/scen"
)

func (c *c10) Cases(tier string, seed int64) []core.Case {
	var cs []core.Case
	r := core.Rng("C10", tier, seed)
	n := map[string]int{"quick": 200, "thorough": 10000}[tier]
	for i := 0; i < n; i++ {
		cs = append(cs, core.MkCase(fmt.Sprintf("writer-%d", i), p1Params{r.Int63(), "writer"}))
	}
	for i := 0; i < map[string]int{"quick": 4, "thorough": 60}[tier]; i++ {
		for _, h := range encoderHistories {
			cs = append(cs, core.MkCase(fmt.Sprintf("writer-via-encoder-%s-%d", h, i), p1Params{r.Int63(), "writer:" + h}))
		}
	}
	// reader direction: all placements of non-saved entries among up to 6 entries
	for total := 2; total <= 6; total++ {
		cs = append(cs, core.MkCase(fmt.Sprintf("reader-placements-%d", total), p1Params{r.Int63(), fmt.Sprintf("reader-placements:%d", total)}))
	}
	// entry counts around the 256-shard limit of GF(2^8), with and without
	// non-saved entries
	for _, n := range []int{250, 255, 256, 257, 300} {
		cs = append(cs, core.MkCase(fmt.Sprintf("reader-many-entries-%d", n), p1Params{r.Int63(), fmt.Sprintf("reader-many:%d", n)}))
		if n >= 255 && n <= 257 {
			cs = append(cs, core.MkCase(fmt.Sprintf("reader-255-saved-of-%d", maxi(n, 255)), p1Params{r.Int63(), fmt.Sprintf("reader-full:%d", maxi(n, 255))}))
		}
	}
	m := map[string]int{"quick": 60, "thorough": 4000}[tier]
	for i := 0; i < m; i++ {
		cs = append(cs, core.MkCase(fmt.Sprintf("reader-rnd-%d", i), p1Params{r.Int63(), "reader-random"}))
	}
	return cs
}

func (c *c10) Run(cs core.Case) core.Result {
	var p p1Params
	core.Decode(cs, &p)
	r := core.NewR(cs)
	rng := rand.New(rand.NewSource(p.Seed))
	switch {
	case p.Kind == "writer":
		c.runWriter(r, rng)
	case len(p.Kind) > 7 && p.Kind[:7] == "writer:":
		// the set is written through a history on one par1.Encoder object
		c10WriterHistory = p.Kind[7:]
		c.runWriter(r, rng)
		c10WriterHistory = ""
	case len(p.Kind) > 18 && p.Kind[:18] == "reader-placements:":
		var total int
		fmt.Sscanf(p.Kind, "reader-placements:%d", &total)
		for mask := 0; mask < 1<<uint(total); mask++ {
			// bit set = saved; need at least one saved entry
			if mask == 0 {
				continue
			}
			c.runReader(r, rng, total, mask, true)
			if len(r.Done().More) > 6 {
				break
			}
		}
	case len(p.Kind) > 12 && p.Kind[:12] == "reader-many:":
		var total int
		fmt.Sscanf(p.Kind, "reader-many:%d", &total)
		c.runReaderMany(r, rng, total, 250, 2)
	case len(p.Kind) > 12 && p.Kind[:12] == "reader-full:":
		// the format's maximum: 255 saved files and one volume (256 shards)
		var total int
		fmt.Sscanf(p.Kind, "reader-full:%d", &total)
		c.runReaderMany(r, rng, total, 255, 1)
	default:
		total := 1 + rng.Intn(10)
		mask := 1 + rng.Intn(1<<uint(total)-1)
		c.runReader(r, rng, total, mask, false)
	}
	return r.Done()
}

var c10WriterHistory string

func (c *c10) runWriter(r *core.R, rng *rand.Rand) {
	nf := 1 + rng.Intn(8)
	nv := 1 + rng.Intn(6)
	if rng.Intn(8) == 0 {
		nv = 7 + rng.Intn(93)
	}
	files := genP1Files(rng, nf)
	hist := ""
	if c10WriterHistory != "" && nf >= 2 {
		hist = c10WriterHistory
		refused := false
		p1CreateHook = func(idx string, paths []string, nv int) (error, *core.PanicInfo) {
			err, ref, pi := p1CreateVia(hist, rng, idx, paths, nv)
			refused = ref
			return err, pi
		}
		defer func() { p1CreateHook = nil }()
		e, err := newP1Env(files, nv, true)
		p1CreateHook = nil
		if err != nil && refused {
			// the Encoder declined the repeated step: acceptable, nothing to validate
			r.Count("encoder_history_refused", 1)
			if e != nil {
				e.close()
			}
			return
		}
		if e != nil {
			e.close()
		}
		r.Count("encoder_histories|"+hist, 1)
		p1CreateHook = func(idx string, paths []string, nv int) (error, *core.PanicInfo) {
			err, _, pi := p1CreateVia(hist, rng, idx, paths, nv)
			return err, pi
		}
	}
	e, err := newP1Env(files, nv, true)
	p1CreateHook = nil
	if e != nil {
		defer e.close()
	}
	if err != nil {
		r.Violate("create-failed", "%v (encoder history %q)", err, hist)
		return
	}
	var in []par1rw.InFile
	for _, f := range files {
		in = append(in, par1rw.InFile{Name: f.Name, Data: f.Data, Saved: true})
	}
	desc := fmt.Sprintf("files=%d volumes=%d names=%q", nf, nv, files[0].Name)
	checkVol := func(path string, volNo int) {
		b, err := os.ReadFile(path)
		if err != nil {
			r.Violate("volume-not-written", "%s: %s missing: %v", desc, filepath.Base(path), err)
			return
		}
		v, problems := par1rw.Parse(b)
		for _, pr := range problems {
			r.Violate("nonconformant-layout", "%s: %s: %s", desc, filepath.Base(path), pr)
		}
		if v == nil {
			return
		}
		if v.VolumeNumber != uint64(volNo) {
			r.Violate("nonconformant-volume-number", "%s: %s has volume number %d", desc, filepath.Base(path), v.VolumeNumber)
		}
		if int(v.FileCount) != nf || len(v.Entries) != nf {
			r.Violate("nonconformant-file-count", "%s: %s lists %d files, expected %d", desc, filepath.Base(path), v.FileCount, nf)
			return
		}
		for i, en := range v.Entries {
			f := files[i]
			if en.Name != f.Name {
				r.Violate("nonconformant-name", "%s: entry %d name %q, expected %q (UTF-16LE with surrogate pairs)", desc, i, en.Name, f.Name)
			}
			if !en.Saved() {
				r.Violate("nonconformant-status", "%s: entry %d status %#x lacks bit 0", desc, i, en.Status)
			}
			want := par1rw.InFile{Data: f.Data}
			if en.Size != uint64(len(f.Data)) || en.Hash != md5Of(want.Data) || en.Hash16k != par1rw.Hash16k(f.Data) {
				r.Violate("nonconformant-entry-hash", "%s: entry %d (%q) size/hash/16k-hash wrong", desc, i, f.Name)
			}
		}
		if volNo == 0 {
			if len(v.Data) != 0 {
				r.Violate("nonconformant-index-data", "%s: index volume carries %d data bytes (no comment was given)", desc, len(v.Data))
			}
		} else {
			want := par1rw.Parity(in, volNo)
			if !bytes.Equal(v.Data, want) {
				r.Violate("parity-differs-from-definition", "%s: volume %d parity != sum i^(v-1)*file_i over GF(2^8)/0x11D (len %d vs %d, first diff %d)", desc, volNo, len(v.Data), len(want), firstDiff2(v.Data, want))
			}
			r.Count("parity_volumes_recomputed", 1)
		}
		r.Count("volumes_parsed", 1)
	}
	checkVol(e.idx, 0)
	for v := 1; v <= nv; v++ {
		checkVol(e.volPath(v), v)
	}
	cls := "bmp"
	for _, f := range files {
		for _, ru := range f.Name {
			if ru > 0xffff {
				cls = "non-bmp"
			}
		}
	}
	r.Key("writer|f=%d|v=%d|%s", nf, nv, cls)
	r.Sample(map[string]interface{}{"direction": "writer", "files": nf, "volumes": nv, "name_class": cls})
}

func firstDiff2(a, b []byte) int {
	for i := 0; i < len(a) && i < len(b); i++ {
		if a[i] != b[i] {
			return i
		}
	}
	if len(a) != len(b) {
		return minInt(len(a), len(b))
	}
	return -1
}

func (c *c10) runReader(r *core.R, rng *rand.Rand, total, savedMask int, allDamage bool) {
	files := genP1Files(rng, total)
	for i := range files {
		if len(files[i].Data) > 400 {
			files[i].Data = files[i].Data[:400]
		}
	}
	var in []par1rw.InFile
	var savedIdx []int
	hasData := false
	for i, f := range files {
		sv := savedMask&(1<<uint(i)) != 0
		// other clients set bit 1 ("checked successfully") and may set bits
		// gopar does not know; only bit 0 decides membership
		extra := []uint64{0, 0, 2, 2, 4, 0x8000000000000002}[rng.Intn(6)]
		in = append(in, par1rw.InFile{Name: f.Name, Data: f.Data, Saved: sv, ExtraStatus: extra})
		if sv {
			savedIdx = append(savedIdx, i)
			if len(f.Data) > 0 {
				hasData = true
			}
		}
	}
	if !hasData {
		files[savedIdx[0]].Data = []byte("not empty")
		in[savedIdx[0]].Data = files[savedIdx[0]].Data
	}
	nv := 1 + rng.Intn(3)
	e, err := newP1Env(files, nv, false)
	if e != nil {
		defer e.close()
	}
	if err != nil {
		r.Inconclusive("env: %v", err)
		return
	}
	comment := []byte(fmt.Sprintf("comment %d \xff\x00 end", rng.Intn(1000)))
	version := uint64(0x00010000) | uint64(rng.Intn(3))<<32 | uint64(rng.Intn(2))<<40
	os.WriteFile(e.idx, par1rw.Build(in, 0, comment, version), 0644)
	// the client-maintained status bits ("checked successfully" and unknown
	// ones) need not agree between the index and the parity volumes
	inVol := append([]par1rw.InFile(nil), in...)
	switch rng.Intn(3) {
	case 1:
		for i := range inVol {
			inVol[i].ExtraStatus = 0
		}
	case 2:
		for i := range inVol {
			inVol[i].ExtraStatus ^= 2
		}
	}
	vols := map[int][]byte{}
	for v := 1; v <= nv; v++ {
		vols[v] = par1rw.Build(inVol, v, par1rw.Parity(in, v), version)
	}
	// non-saved files are sometimes absent or altered on disk, and stay so
	e.bystander = map[int]string{}
	for i := range files {
		if savedMask&(1<<uint(i)) == 0 {
			e.bystander[i] = []string{"absent", "altered", ""}[rng.Intn(3)]
		}
	}
	desc := fmt.Sprintf("reference-written set: %d entries, saved mask %b, %d volumes", total, savedMask, nv)
	_ = desc
	before := len(r.Done().More)
	// untouched
	p1Judge(r, e, vols, p1Damage{bad: map[int]string{}, lostVols: map[int]bool{}}, rng, savedIdx, true)
	// damage each saved file in turn (and pairs when volumes allow)
	for k, i := range savedIdx {
		if !allDamage && k > 2 {
			break
		}
		d := p1Damage{bad: map[int]string{i: []string{"delete", "flip"}[rng.Intn(2)]}, lostVols: map[int]bool{}}
		if nv > 1 && rng.Intn(2) == 0 {
			d.lostVols[1+rng.Intn(nv)] = true
		}
		p1Judge(r, e, vols, d, rng, savedIdx, k%2 == 0)
		if nv >= 2 && len(savedIdx) >= 2 {
			j := savedIdx[(k+1)%len(savedIdx)]
			if j != i {
				p1Judge(r, e, vols, p1Damage{bad: map[int]string{i: "delete", j: "delete"}, lostVols: map[int]bool{}}, rng, savedIdx, false)
			}
		}
	}
	// intact data, a hole in the parity numbering, full parity check
	if nv >= 2 {
		p1Judge(r, e, vols, p1Damage{bad: map[int]string{}, lostVols: map[int]bool{1 + rng.Intn(nv-1): true}}, rng, savedIdx, true)
	}
	// no parity volume at all, data intact: Verify (full check) and Repair have
	// nothing to complain about
	{
		d := p1Damage{bad: map[int]string{}, lostVols: map[int]bool{}}
		for v := 1; v <= nv; v++ {
			d.lostVols[v] = true
		}
		p1Judge(r, e, vols, d, rng, savedIdx, true)
	}
	// every saved file lost at once (the parity volumes alone carry the set)
	{
		d := p1Damage{bad: map[int]string{}, lostVols: map[int]bool{}}
		for k, i := range savedIdx {
			d.bad[i] = []string{"delete", "flip", "truncate"}[k%3]
		}
		p1Judge(r, e, vols, d, rng, savedIdx, false)
	}
	_ = before
	r.Key("reader|n=%d|mask=%b|v=%d", total, savedMask, nv)
	r.Count("reference_written_sets", 1)
	r.Sample(map[string]interface{}{"direction": "reader", "entries": total, "saved_mask": fmt.Sprintf("%b", savedMask), "volumes": nv, "comment_bytes": len(comment), "version_field": fmt.Sprintf("%#x", version)})
}

// runReaderMany: a reference-written index with `total` entries of which
// at most 250 are saved (so that parity volumes fit the 256-shard limit).
func (c *c10) runReaderMany(r *core.R, rng *rand.Rand, total, maxSaved, nv int) {
	var files []scen.File
	var in []par1rw.InFile
	var savedIdx []int
	nSaved := 0
	unsaved := map[int]bool{}
	if maxSaved == 255 && total > 255 {
		for _, i := range rng.Perm(total)[:total-255] {
			unsaved[i] = true
		}
	}
	for i := 0; i < total; i++ {
		f := scen.File{Name: fmt.Sprintf("m%03d.bin", i), Data: scen.GenData(rng, "random", 1+rng.Intn(40), 16)}
		files = append(files, f)
		sv := nSaved < maxSaved && (total <= maxSaved || rng.Intn(total) < maxSaved)
		if i >= total-3 && nSaved < 3 {
			sv = true
		}
		if maxSaved == 255 {
			// exactly 255 saved; the surplus entries (not saved) are spread randomly
			sv = !unsaved[i]
		}
		if sv {
			nSaved++
			savedIdx = append(savedIdx, i)
		}
		in = append(in, par1rw.InFile{Name: f.Name, Data: f.Data, Saved: sv})
	}
	e, err := newP1Env(files, nv, false)
	if e != nil {
		defer e.close()
	}
	if err != nil {
		r.Inconclusive("env: %v", err)
		return
	}
	os.WriteFile(e.idx, par1rw.Build(in, 0, []byte("many"), 0x00010000), 0644)
	vols := map[int][]byte{}
	for v := 1; v <= nv; v++ {
		vols[v] = par1rw.Build(in, v, par1rw.Parity(in, v), 0x00010000)
	}
	p1Judge(r, e, vols, p1Damage{bad: map[int]string{}, lostVols: map[int]bool{}}, rng, savedIdx, true)
	p1Judge(r, e, vols, p1Damage{bad: map[int]string{savedIdx[0]: "delete"}, lostVols: map[int]bool{}}, rng, savedIdx, false)
	if nv >= 2 {
		p1Judge(r, e, vols, p1Damage{bad: map[int]string{savedIdx[len(savedIdx)-1]: "flip", savedIdx[len(savedIdx)/2]: "delete"}, lostVols: map[int]bool{}}, rng, savedIdx, true)
	} else {
		p1Judge(r, e, vols, p1Damage{bad: map[int]string{savedIdx[len(savedIdx)-1]: "flip"}, lostVols: map[int]bool{}}, rng, savedIdx, true)
	}
	r.Key("reader-many|n=%d|saved=%d|v=%d", total, nSaved, nv)
	r.Count("reference_written_sets", 1)
	r.Sample(map[string]interface{}{"direction": "reader", "entries": total, "saved": nSaved, "volumes": nv})
}
