package checks

import (
	"fmt"
	"math/bits"
	"os"
	"os/exec"

	"github.com/akalin/gopar/gf2"
	"github.com/akalin/gopar/gf2p16"

	"verifharness/internal/core"
	"verifharness/internal/ref/gf16"
)

// C08 — GF(2^16) and GF(2)[x] arithmetic.

type c08 struct{ base }

type c08Params struct {
	Op    string `json:"op"`
	Lo    int    `json:"lo,omitempty"`
	Hi    int    `json:"hi,omitempty"`
	N     int    `json:"n,omitempty"`
	Seed  int64  `json:"seed,omitempty"`
	Chain bool   `json:"chain,omitempty"`
}

func init() {
	register(&c08{base{
		id:          "C08",
		level:       lvlExploration,
		rule:        "times/div: every one of the 2^32 operand pairs (case = block of 1024 constants x all 65536 values) compared with a shift-and-xor reference; inverse: all 65535 elements; pow: all 65536 bases x a fixed exponent list (quick) plus the full chain a^(p+1)=a^p*a for p<=65536 (thorough); Poly64: all single-bit pairs, boundary degrees and seeded random pairs; each operation also as the first field operation of a fresh process that imports only gf2p16. A key is one (operation, operand block); blocks are disjoint, so distinct_nontrivial counts distinct blocks and monitor_counters.pairs_* count the operand pairs actually compared Times, Div, Pow and Inverse blocks are repeated in a GOARCH=386 build of the worker (32-bit int). Polynomial products and divisions also in the 386 build.",
		assumptions: append([]string{"reference field arithmetic: internal/ref/gf16 (carry-less shift-and-xor product reduced by 0x1100B, extended Euclid inverse, square-and-multiply power)"}, commonAssumptions...),
		opts:        core.WorkerOpts{CrashIsViolation: true, WallSeconds: 3000, CPUSeconds: 150, CPULimitIsViolation: true, Exhaustive: true, Extra: map[string]interface{}{"exhaustive_subspace": "all 2^32 pairs for Times and Div, all 65535 inverses"}},
	}})
}

func (c *c08) Cases(tier string, seed int64) []core.Case {
	var cs []core.Case
	const blk = 1024
	for lo := 0; lo < 65536; lo += blk {
		cs = append(cs, core.MkCase(fmt.Sprintf("times[%d,%d)", lo, lo+blk), c08Params{Op: "times", Lo: lo, Hi: lo + blk}))
		cs = append(cs, core.MkCase(fmt.Sprintf("div[%d,%d)", lo, lo+blk), c08Params{Op: "div", Lo: lo, Hi: lo + blk}))
	}
	cs = append(cs, core.MkCase("inverse", c08Params{Op: "inverse"}))
	pblk := 2048
	for lo := 0; lo < 65536; lo += pblk {
		cs = append(cs, core.MkCase(fmt.Sprintf("pow[%d,%d)", lo, lo+pblk), c08Params{Op: "pow", Lo: lo, Hi: lo + pblk, Seed: seed, Chain: tier == "thorough"}))
	}
	cs = append(cs, core.MkCase("poly-structured", c08Params{Op: "poly-structured"}))
	cs = append(cs, core.MkCase("fresh-process-first-operation", c08Params{Op: "fresh", Seed: seed}))
	// The same operations in the GOARCH=386 build of the worker: int is 32
	// bits wide there, so products of logarithms and exponents that fit an
	// int on amd64 do not.
	step386 := 16384
	if tier == "thorough" {
		step386 = 4096
	}
	for lo := 0; lo < 65536; lo += step386 {
		for _, op := range []string{"times", "div", "pow"} {
			cc := core.MkCase(fmt.Sprintf("386:%s[%d,%d)", op, lo+step386-512, lo+step386), c08Params{Op: op, Lo: lo + step386 - 512, Hi: lo + step386, Seed: seed})
			cc.Arch386 = true
			cs = append(cs, cc)
		}
	}
	inv386 := core.MkCase("386:inverse", c08Params{Op: "inverse"})
	inv386.Arch386 = true
	cs = append(cs, inv386)
	ps386 := core.MkCase("386:poly-structured", c08Params{Op: "poly-structured"})
	ps386.Arch386 = true
	cs = append(cs, ps386)
	pr386 := core.MkCase("386:poly-random", c08Params{Op: "poly-random", N: 100000, Seed: seed*1000 + 386})
	pr386.Arch386 = true
	cs = append(cs, pr386)
	n := 250000
	k := 8
	if tier == "thorough" {
		n = 4000000
		k = 32
	}
	for i := 0; i < k; i++ {
		cs = append(cs, core.MkCase(fmt.Sprintf("poly-random-%d", i), c08Params{Op: "poly-random", N: n, Seed: seed*1000 + int64(i)}))
	}
	return cs
}

func powExponents(seed int64) []uint32 {
	var es []uint32
	for i := uint32(0); i <= 20; i++ {
		es = append(es, i)
	}
	for k := uint64(1); k <= 65537; k *= 3 {
		for d := int64(-2); d <= 2; d++ {
			v := int64(k*65535) + d
			if v >= 0 && v <= 0xffffffff {
				es = append(es, uint32(v))
			}
		}
	}
	for _, v := range []uint64{65534, 65535, 65536, 65537, 131069, 131070, 131071, 196605, 1 << 31, 1<<31 - 1, 1<<31 + 1, 1<<32 - 1, 1<<32 - 2, 1<<32 - 65535, 1<<32 - 65536, 0xffff0000, 0x10001, 0xfffefffe} {
		es = append(es, uint32(v))
	}
	r := core.Rng("C08-pow", seed)
	for i := 0; i < 40; i++ {
		es = append(es, r.Uint32())
	}
	for i := 0; i < 16; i++ {
		es = append(es, uint32(r.Intn(1<<18)))
	}
	return es
}

func clmul64lo(p, q uint64) uint64 {
	// Product mod x^64, iterating over the bits of p (gopar iterates over q).
	var prod uint64
	for p != 0 {
		i := bits.TrailingZeros64(p)
		prod ^= q << uint(i)
		p &= p - 1
	}
	return prod
}

func clmul128(p, q uint64) (hi, lo uint64) {
	for p != 0 {
		i := uint(bits.TrailingZeros64(p))
		lo ^= q << i
		if i > 0 {
			hi ^= q >> (64 - i)
		}
		p &= p - 1
	}
	return
}

func deg64(p uint64) int { return 63 - bits.LeadingZeros64(p) }

var c08PolyN int
var c08Skip bool

func (c *c08) checkPoly(r *core.R, p, q uint64) {
	c08PolyN++
	if c08PolyN%64 == 1 {
		// one sub-case per 64 pairs: a hang or crash is attributed and skipped
		if !core.Sub(c08PolyN / 64) {
			c08Skip = true
		} else {
			c08Skip = false
		}
	}
	if c08Skip {
		return
	}
	if c08PolyN%64 == 1 || q>>32 == 1 || p>>32 == 1 {
		core.Note("C08 Poly64 p=%#x q=%#x (Times, Div)", p, q)
	}
	got := uint64(gf2.Poly64(p).Times(gf2.Poly64(q)))
	if want := clmul64lo(p, q); got != want {
		r.Violate("poly64-times", "Poly64(%#x).Times(%#x) = %#x, reference %#x", p, q, got, want)
	}
	r.Count("pairs_poly_times", 1)
	if q != 0 {
		var qq, rr gf2.Poly64
		if pi := core.Protect(func() { qq, rr = gf2.Poly64(p).Div(gf2.Poly64(q)) }); pi != nil {
			r.Violate("poly64-div-panic", "Poly64(%#x).Div(%#x) panicked: %s", p, q, pi.Msg)
			return
		}
		hi, lo := clmul128(uint64(qq), q)
		if hi != 0 || lo^uint64(rr) != p {
			r.Violate("poly64-div", "Poly64(%#x).Div(%#x) = (%#x,%#x): q*d+r = %#x:%#x", p, q, qq, rr, hi, lo^uint64(rr))
		}
		if rr != 0 && deg64(uint64(rr)) >= deg64(q) {
			r.Violate("poly64-div-degree", "Poly64(%#x).Div(%#x): deg r=%d >= deg d=%d", p, q, deg64(uint64(rr)), deg64(q))
		}
		r.Count("pairs_poly_div", 1)
	}
}

func (c *c08) Run(cs core.Case) core.Result {
	var p c08Params
	core.Decode(cs, &p)
	c08PolyN, c08Skip = 0, false
	r := core.NewR(cs)
	r.Key("%s", cs.Name)
	switch p.Op {
	case "times":
		var row [65536]uint16
		for cst := p.Lo; cst < p.Hi; cst++ {
			gf16.Row(uint16(cst), &row)
			t := gf2p16.T(cst)
			for b := 0; b < 65536; b++ {
				if got := uint16(t.Times(gf2p16.T(b))); got != row[b] {
					r.Violate("times", "T(%d).Times(%d) = %d, reference %d", cst, b, got, row[b])
					if len(r.Done().More) > 5 {
						return r.Done()
					}
				}
			}
			// Symmetric operand order on a stride.
			for b := cst & 15; b < 65536; b += 16 {
				if got := uint16(gf2p16.T(b).Times(t)); got != row[b] {
					r.Violate("times", "T(%d).Times(%d) = %d, reference %d", b, cst, got, row[b])
				}
			}
			r.Count("pairs_times", 65536)
		}
		r.Sample(map[string]interface{}{"op": "Times", "constants": []int{p.Lo, p.Hi}, "values": "0..65535", "example": fmt.Sprintf("%d*%d=%d", p.Lo+1, 40000, gf16.Mul(uint16(p.Lo+1), 40000))})
	case "div":
		var row [65536]uint16
		for d := p.Lo; d < p.Hi; d++ {
			if d == 0 {
				continue
			}
			inv := gf16.Inv(uint16(d))
			gf16.Row(inv, &row)
			dt := gf2p16.T(d)
			var bad *core.PanicInfo
			a := 0
			for a < 65536 {
				bad = core.Protect(func() {
					for ; a < 65536; a++ {
						if got := uint16(gf2p16.T(a).Div(dt)); got != row[a] {
							r.Violate("div", "T(%d).Div(%d) = %d, reference %d", a, d, got, row[a])
						}
					}
				})
				if bad != nil {
					r.Violate("div-panic", "T(%d).Div(%d) panicked: %s", a, d, bad.Msg)
					a++
				}
				if len(r.Done().More) > 5 {
					return r.Done()
				}
			}
			r.Count("pairs_div", 65536)
		}
		r.Sample(map[string]interface{}{"op": "Div", "divisors": []int{p.Lo, p.Hi}, "dividends": "0..65535"})
	case "inverse":
		for a := 1; a < 65536; a++ {
			var inv uint16
			if pi := core.Protect(func() { inv = uint16(gf2p16.T(a).Inverse()) }); pi != nil {
				r.Violate("inverse-panic", "T(%d).Inverse() panicked: %s", a, pi.Msg)
				continue
			}
			if gf16.Mul(uint16(a), inv) != 1 || inv != gf16.Inv(uint16(a)) {
				r.Violate("inverse", "T(%d).Inverse() = %d; a*inv = %d by reference", a, inv, gf16.Mul(uint16(a), inv))
			}
			r.Count("inverses", 1)
		}
		r.Sample(map[string]interface{}{"op": "Inverse", "elements": "1..65535"})
	case "pow":
		es := powExponents(p.Seed)
		for a := p.Lo; a < p.Hi; a++ {
			for _, e := range es {
				var got uint16
				if pi := core.Protect(func() { got = uint16(gf2p16.T(a).Pow(e)) }); pi != nil {
					r.Violate("pow-panic", "T(%d).Pow(%d) panicked: %s", a, e, pi.Msg)
					continue
				}
				if want := gf16.Pow(uint16(a), uint64(e)); got != want {
					r.Violate("pow", "T(%d).Pow(%d) = %d, reference %d", a, e, got, want)
				}
			}
			r.Count("pairs_pow", int64(len(es)))
			if p.Chain {
				acc := uint16(1)
				var row [65536]uint16
				gf16.Row(uint16(a), &row)
				for e := uint32(0); e <= 65537; e++ {
					if got := uint16(gf2p16.T(a).Pow(e)); got != acc {
						r.Violate("pow-chain", "T(%d).Pow(%d) = %d, repeated product %d", a, e, got, acc)
						break
					}
					// wrap-around classes: a^(e+k*65535) = a^e for a != 0, e > 0
					if e > 0 && a != 0 && e%4099 == 1 {
						for _, k := range []uint32{1, 2, 65536, 65537} {
							big := uint64(e) + uint64(k)*65535
							if big <= 0xffffffff {
								if got := uint16(gf2p16.T(a).Pow(uint32(big))); got != acc {
									r.Violate("pow-wrap", "T(%d).Pow(%d) = %d, expected %d", a, big, got, acc)
								}
							}
						}
					}
					acc = row[acc]
				}
				r.Count("pairs_pow_chain", 65538)
			}
			if len(r.Done().More) > 5 {
				return r.Done()
			}
		}
		r.Sample(map[string]interface{}{"op": "Pow", "bases": []int{p.Lo, p.Hi}, "exponents": es[:12], "n_exponents": len(es)})
	case "fresh":
		// Each operation as the FIRST use of the field in a fresh process that
		// imports nothing else of gopar: table construction must not depend on
		// which operation happens to come first.
		exe := os.Getenv("VW_FRESH_EXE")
		if exe == "" {
			r.Inconclusive("vwfresh not built")
			return r.Done()
		}
		for _, op := range []string{"div", "times", "inverse", "pow", "mulslice", "muladdslice"} {
			for k, gmp := range []string{"", "1", "3", "6", "7"} {
				cmd := exec.Command(exe, op, fmt.Sprint(p.Seed+int64(k)))
				if gmp != "" {
					// table construction must not depend on the number of CPUs the
					// process starts with
					cmd.Env = append(os.Environ(), "GOMAXPROCS="+gmp)
				}
				out, err := cmd.CombinedOutput()
				r.Count("fresh_processes", 1)
				if err != nil {
					r.Violate("wrong-result-as-first-operation|"+op, "%s as the first field operation of a fresh process: %v\n%s", op, err, tailStr(string(out), 600))
				}
				r.Key("fresh|%s|%d", op, k)
			}
		}
		r.Sample(map[string]interface{}{"op": "first operation in a fresh process", "operations": []string{"div", "times", "inverse", "pow", "mulslice", "muladdslice"}})
	case "poly-structured":
		for i := 0; i < 64; i++ {
			for j := 0; j < 64; j++ {
				c.checkPoly(r, 1<<uint(i), 1<<uint(j))
				c.checkPoly(r, 1<<uint(i)|1, 1<<uint(j)|1)
				c.checkPoly(r, ^uint64(0)>>uint(i), ^uint64(0)>>uint(j))
				c.checkPoly(r, ^uint64(0)<<uint(i), 1<<uint(j))
				c.checkPoly(r, 1<<uint(i), ^uint64(0)<<uint(j))
			}
		}
		for _, v := range []uint64{0, 1, 2, 3, 0x1100b, 0x11d, 1 << 63, 1<<63 | 1, ^uint64(0)} {
			for _, w := range []uint64{0, 1, 2, 3, 0x1100b, 0x11d, 1 << 63, 1<<63 | 1, ^uint64(0)} {
				c.checkPoly(r, v, w)
			}
		}
		r.Sample(map[string]interface{}{"op": "Poly64 structured", "example": "x^i * x^j, all-ones >> i, degree-63 operands, 0x1100b"})
	case "poly-random":
		rng := core.Rng("C08-poly", p.Seed)
		for i := 0; i < p.N; i++ {
			a, b := rng.Uint64(), rng.Uint64()
			switch i % 4 {
			case 1:
				b >>= uint(rng.Intn(64))
			case 2:
				a >>= uint(rng.Intn(64))
				b >>= uint(rng.Intn(64))
			case 3:
				b = 1<<uint(rng.Intn(64)) | b>>uint(1+rng.Intn(63))
			}
			c.checkPoly(r, a, b)
			if len(r.Done().More) > 5 {
				return r.Done()
			}
		}
		r.Sample(map[string]interface{}{"op": "Poly64 random", "n": p.N, "seed": p.Seed})
	}
	return r.Done()
}
