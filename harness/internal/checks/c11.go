package checks

import (
	"fmt"
	"math/rand"
	"sync"

	"github.com/akalin/gopar/gf2p16"

	"verifharness/internal/core"
	"verifharness/internal/ref/gf16"
)

// C11 — matrix inversion, row reduction and product.

type c11 struct{ base }

type c11Params struct {
	Kind string `json:"kind"`
	N    int    `json:"n"`
	NC   int    `json:"nc"`
	Seed int64  `json:"seed"`
}

func init() {
	register(&c11{base{
		id:          "C11",
		level:       lvlExploration,
		rule:        "each case builds one n x n matrix M of a structured kind (random, vandermonde, cauchy, permutation, triangular, rank-deficient product, repeated/combined rows, P*L*U with zero leading pivots, singular only at the last pivot) plus an n x nc right-hand side N, then compares Inverse, RowReduceForInverse(M,N) and Times with an independent elimination (last-row pivoting) and checks operands are unchanged; a key is (kind, n, nc, singular?); trivial = nothing (every case exercises the oracle). Kinds unit-upper, unit-lower, ones-and-zeros.. Self-products M.Times(M). Matrices of 2^16 elements and more (n = 256, 260; right-hand sides of 13 000-40 000 columns).",
		assumptions: append([]string{"reference: internal/ref/gf16 matrices (own elimination with a different pivot rule, own field product)"}, commonAssumptions...),
		opts:        core.WorkerOpts{CrashIsViolation: true, WallSeconds: 1800},
	}})
}

var c11Kinds = []string{"zerorow", "random", "vandermonde", "cauchy", "permutation", "lower", "upper", "rankdef", "duprow", "comborow", "plu-zero-pivots", "last-pivot", "zerocol", "sparse", "unit-upper", "unit-lower", "ones-and-zeros"}

func (c *c11) Cases(tier string, seed int64) []core.Case {
	var cs []core.Case
	r := core.Rng("C11", tier, seed)
	var dims []int
	for n := 1; n <= 40; n++ {
		dims = append(dims, n)
	}
	dims = append(dims, 47, 48, 49, 56, 63, 64)
	if tier != "thorough" {
		// large enough that a different strategy for big products would apply
		dims = append(dims, 101, 102, 103, 128, 160)
		// 2^16 elements and more: a different way to fill or multiply big
		// matrices would apply here
		dims = append(dims, 256, 260)
	}
	if tier == "thorough" {
		for n := 41; n <= 130; n++ {
			dims = append(dims, n)
		}
		dims = append(dims, 160, 200, 255, 256, 257, 300)
	}
	for _, n := range dims {
		for ki, k := range c11Kinds {
			if tier != "thorough" && n > 24 && (n+ki)%3 != 0 {
				continue
			}
			if n > 130 && ki%4 != 0 {
				continue
			}
			nc := []int{1, n, n + 8 + r.Intn(9), 24 + r.Intn(8), 1 + r.Intn(2*n+40)}[r.Intn(5)]
			cs = append(cs, core.MkCase(fmt.Sprintf("%s-n%d-nc%d", k, n, nc), c11Params{k, n, nc, r.Int63()}))
		}
	}
	// few rows, very many columns (the shape of a parity matrix for a set of
	// tens of thousands of slices): more than 2^16 elements in the right-hand side
	for _, w := range [][2]int{{4, 16400}, {3, 22000}, {2, 40000}, {5, 13108}} {
		for _, k := range []string{"random", "vandermonde"} {
			cs = append(cs, core.MkCase(fmt.Sprintf("wide-%s-n%d-nc%d", k, w[0], w[1]), c11Params{k, w[0], w[1], r.Int63()}))
		}
	}
	for i := 0; i < 4; i++ {
		cs = append(cs, core.MkCase(fmt.Sprintf("concurrent-%d", i), c11Params{"concurrent", 12 + 7*i, 20, r.Int63()}))
		if i < 2 {
			rc := core.MkCase(fmt.Sprintf("race-concurrent-%d", i), c11Params{"concurrent", 10 + 9*i, 24, r.Int63()})
			rc.Race = true
			cs = append(cs, rc)
		}
	}
	return cs
}

func c11Build(kind string, n int, r *rand.Rand) gf16.Matrix {
	m := gf16.NewMatrix(n, n)
	rnd := func() uint16 { return uint16(r.Intn(65536)) }
	nz := func() uint16 { return uint16(1 + r.Intn(65535)) }
	randomize := func(x gf16.Matrix) {
		for i := range x.E {
			x.E[i] = rnd()
		}
	}
	switch kind {
	case "random":
		randomize(m)
	case "vandermonde":
		perm := r.Perm(65535)
		for j := 0; j < n; j++ {
			a := uint16(perm[j] + 1)
			for i := 0; i < n; i++ {
				m.Set(i, j, gf16.Pow(a, uint64(i)))
			}
		}
	case "cauchy":
		perm := r.Perm(65536)
		for i := 0; i < n; i++ {
			for j := 0; j < n; j++ {
				m.Set(i, j, gf16.Inv(uint16(perm[i])^uint16(perm[n+j])))
			}
		}
	case "permutation":
		p := r.Perm(n)
		for i := 0; i < n; i++ {
			m.Set(i, p[i], nz())
		}
	case "lower", "upper":
		for i := 0; i < n; i++ {
			for j := 0; j < n; j++ {
				if (kind == "lower" && j < i) || (kind == "upper" && j > i) {
					m.Set(i, j, rnd())
				}
			}
			m.Set(i, i, nz())
		}
	case "unit-upper", "unit-lower":
		// ones on the diagonal: nothing to scale, nothing to swap, and for the
		// upper one nothing to eliminate below the diagonal either
		for i := 0; i < n; i++ {
			for j := 0; j < n; j++ {
				if (kind == "unit-lower" && j < i) || (kind == "unit-upper" && j > i) {
					if r.Intn(3) != 0 {
						m.Set(i, j, rnd())
					}
				}
			}
			m.Set(i, i, 1)
		}
	case "ones-and-zeros":
		// a tiny alphabet: entries equal to 1 (and to each other) everywhere
		for i := 0; i < n; i++ {
			for j := 0; j < n; j++ {
				m.Set(i, j, uint16(r.Intn(3)))
			}
		}
	case "rankdef":
		rk := r.Intn(n)
		if rk == 0 {
			return m // zero matrix
		}
		a := gf16.NewMatrix(n, rk)
		b := gf16.NewMatrix(rk, n)
		randomize(a)
		randomize(b)
		m = a.Mul(b)
	case "duprow":
		randomize(m)
		if n > 1 {
			i, j := r.Intn(n), r.Intn(n)
			for j == i {
				j = r.Intn(n)
			}
			copy(m.E[i*n:(i+1)*n], m.E[j*n:(j+1)*n])
		}
	case "comborow":
		randomize(m)
		if n > 2 {
			t := r.Intn(n)
			for j := 0; j < n; j++ {
				m.Set(t, j, 0)
			}
			for k := 0; k < 2; k++ {
				s := r.Intn(n)
				for s == t {
					s = r.Intn(n)
				}
				f := nz()
				for j := 0; j < n; j++ {
					m.E[t*n+j] ^= gf16.Mul(f, m.At(s, j))
				}
			}
		}
	case "plu-zero-pivots":
		// P*U with U dense upper triangular: non-singular, but the
		// natural pivot is zero wherever the permutation moves a
		// row, so a row swap is needed at (almost) every position.
		perm := r.Perm(n)
		for i := 0; i < n; i++ {
			row := perm[i]
			for j := i; j < n; j++ {
				m.Set(row, j, rnd())
			}
			m.Set(row, i, nz())
		}
	case "last-pivot":
		// Non-singular except that the last pivot vanishes.
		l := gf16.NewMatrix(n, n)
		u := gf16.NewMatrix(n, n)
		for i := 0; i < n; i++ {
			for j := 0; j < n; j++ {
				if j < i {
					l.Set(i, j, rnd())
				}
				if j > i {
					u.Set(i, j, rnd())
				}
			}
			l.Set(i, i, 1)
			u.Set(i, i, nz())
		}
		u.Set(n-1, n-1, 0)
		m = l.Mul(u)
	case "zerocol":
		randomize(m)
		cidx := r.Intn(n)
		for i := 0; i < n; i++ {
			m.Set(i, cidx, 0)
		}
	case "zerorow":
		// non-zero rows with one or two all-zero rows in between
		randomize(m)
		for k := 0; k < 1+r.Intn(2); k++ {
			z := r.Intn(n)
			if n > 1 {
				z = 1 + r.Intn(n-1)
			}
			for j := 0; j < n; j++ {
				m.Set(z, j, 0)
			}
		}
	case "sparse":
		for i := 0; i < n; i++ {
			for k := 0; k < 2; k++ {
				m.Set(i, r.Intn(n), nz())
			}
		}
	}
	return m
}

func toGopar(m gf16.Matrix) gf2p16.Matrix {
	e := make([]gf2p16.T, len(m.E))
	for i, v := range m.E {
		e[i] = gf2p16.T(v)
	}
	return gf2p16.NewMatrixFromSlice(m.R, m.C, e)
}

func equalsRef(g gf2p16.Matrix, m gf16.Matrix) (bool, string) {
	for i := 0; i < m.R; i++ {
		for j := 0; j < m.C; j++ {
			if uint16(g.At(i, j)) != m.At(i, j) {
				return false, fmt.Sprintf("element (%d,%d): gopar %d, reference %d", i, j, g.At(i, j), m.At(i, j))
			}
		}
	}
	return true, ""
}

func (c *c11) Run(cs core.Case) core.Result {
	var p c11Params
	core.Decode(cs, &p)
	r := core.NewR(cs)
	rng := rand.New(rand.NewSource(p.Seed))
	if p.Kind == "concurrent" {
		c.runConcurrent(r, p, rng)
		return r.Done()
	}
	// every fourth case runs on the non-SSSE3 dispatch path
	noSSSE3 := p.Seed%4 == 0
	had := gf2p16.VerifSetSSSE3(!noSSSE3 && gf2p16.VerifHasSSSE3())
	defer gf2p16.VerifSetSSSE3(had)
	if noSSSE3 {
		r.Count("matrices_on_non_ssse3_path", 1)
	}
	m := c11Build(p.Kind, p.N, rng)
	n := gf16.NewMatrix(p.N, p.NC)
	for i := range n.E {
		n.E[i] = uint16(rng.Intn(65536))
	}
	gm := toGopar(m)
	gn := toGopar(n)

	refInv, nonsing := m.Solve(gf16.Identity(p.N))
	r.Key("%s|n=%d|nc=%d|singular=%v", p.Kind, p.N, p.NC, !nonsing)
	r.Count("matrices", 1)
	if nonsing {
		r.Count("nonsingular", 1)
	} else {
		r.Count("singular", 1)
	}

	// Inverse.
	var inv gf2p16.Matrix
	var err error
	if pi := core.Protect(func() { inv, err = gm.Inverse() }); pi != nil {
		r.Violate("inverse-panic", "Inverse panicked on %s: %s", cs.Name, pi.Msg)
	} else if nonsing {
		if err != nil {
			r.Violate("inverse-false-singular", "Inverse reported %v for a non-singular %s matrix n=%d", err, p.Kind, p.N)
		} else if ok, d := equalsRef(inv, refInv); !ok {
			r.Violate("inverse-wrong", "Inverse wrong for %s n=%d: %s", p.Kind, p.N, d)
		}
	} else if err == nil {
		r.Violate("inverse-missed-singular", "Inverse returned no error for a singular %s matrix n=%d (rank %d)", p.Kind, p.N, m.Rank())
	}
	if ok, d := equalsRef(gm, m); !ok {
		r.Violate("operand-modified", "Inverse modified its operand: %s", d)
	}

	// RowReduceForInverse.
	refRed, _ := m.Solve(n)
	var red gf2p16.Matrix
	if pi := core.Protect(func() { red, err = gm.RowReduceForInverse(gn) }); pi != nil {
		r.Violate("rowreduce-panic", "RowReduceForInverse panicked on %s: %s", cs.Name, pi.Msg)
	} else if nonsing {
		if err != nil {
			r.Violate("rowreduce-false-singular", "RowReduceForInverse reported %v for a non-singular %s matrix n=%d", err, p.Kind, p.N)
		} else if ok, d := equalsRef(red, refRed); !ok {
			r.Violate("rowreduce-wrong", "RowReduceForInverse != M^-1 N for %s n=%d nc=%d: %s", p.Kind, p.N, p.NC, d)
		}
	} else if err == nil {
		r.Violate("rowreduce-missed-singular", "RowReduceForInverse returned no error for a singular %s matrix n=%d", p.Kind, p.N)
	}
	if ok, d := equalsRef(gm, m); !ok {
		r.Violate("operand-modified", "RowReduceForInverse modified M: %s", d)
	}
	if ok, d := equalsRef(gn, n); !ok {
		r.Violate("operand-modified", "RowReduceForInverse modified N (%s n=%d nc=%d singular=%v): %s", p.Kind, p.N, p.NC, !nonsing, d)
	}

	// Times with the same matrix on both sides (and a second square operand).
	if p.N <= 64 {
		var sq gf2p16.Matrix
		if pi := core.Protect(func() { sq = gm.Times(gm) }); pi != nil {
			r.Violate("times-panic", "M.Times(M) panicked: %s", pi.Msg)
		} else if ok, d := equalsRef(sq, m.Mul(m)); !ok {
			r.Violate("times-wrong", "M.Times(M) wrong for %s n=%d: %s", p.Kind, p.N, d)
		} else if ok, d := equalsRef(gm, m); !ok {
			r.Violate("operand-modified", "M.Times(M) modified M: %s", d)
		}
	}
	// Times (square x rectangular).
	var prod gf2p16.Matrix
	if pi := core.Protect(func() { prod = gm.Times(gn) }); pi != nil {
		r.Violate("times-panic", "Times panicked: %s", pi.Msg)
	} else if ok, d := equalsRef(prod, m.Mul(n)); !ok {
		r.Violate("times-wrong", "Times wrong for %s n=%d nc=%d: %s", p.Kind, p.N, p.NC, d)
	}
	if ok, d := equalsRef(gm, m); !ok {
		r.Violate("operand-modified", "Times modified M: %s", d)
	}
	if ok, d := equalsRef(gn, n); !ok {
		r.Violate("operand-modified", "Times modified N: %s", d)
	}
	if nonsing {
		// M * M^-1 = I through gopar's own product, judged by the reference identity.
		if pi := core.Protect(func() { prod = gm.Times(inv) }); pi == nil && err == nil {
			if ok, d := equalsRef(prod, gf16.Identity(p.N)); !ok && !r.IsViolated() {
				r.Violate("inverse-product", "M*Inverse(M) != I: %s", d)
			}
		}
	}
	r.Sample(map[string]interface{}{"kind": p.Kind, "n": p.N, "rhs_columns": p.NC, "seed": p.Seed, "singular": !nonsing})
	return r.Done()
}

// runConcurrent: matrices are immutable values, so several goroutines may
// invert and row-reduce different matrices at the same time.
func (c *c11) runConcurrent(r *core.R, p c11Params, rng *rand.Rand) {
	const workers = 12
	type job struct {
		m, n   gf16.Matrix
		inv    gf16.Matrix
		red    gf16.Matrix
		nonsng bool
	}
	jobs := make([]job, workers*6)
	for i := range jobs {
		kind := []string{"random", "vandermonde", "plu-zero-pivots", "lower"}[i%4]
		m := c11Build(kind, p.N, rng)
		n := gf16.NewMatrix(p.N, p.NC)
		for k := range n.E {
			n.E[k] = uint16(rng.Intn(65536))
		}
		inv, ok := m.Solve(gf16.Identity(p.N))
		red, _ := m.Solve(n)
		jobs[i] = job{m, n, inv, red, ok}
	}
	var mu sync.Mutex
	var wg sync.WaitGroup
	for w := 0; w < workers; w++ {
		wg.Add(1)
		go func(w int) {
			defer wg.Done()
			for rep := 0; rep < 4; rep++ {
				for i := w; i < len(jobs); i += workers {
					j := jobs[i]
					gm, gn := toGopar(j.m), toGopar(j.n)
					var inv, red gf2p16.Matrix
					var e1, e2 error
					pi := core.Protect(func() {
						inv, e1 = gm.Inverse()
						red, e2 = gm.RowReduceForInverse(gn)
					})
					mu.Lock()
					r.Count("concurrent_operations", 2)
					switch {
					case pi != nil:
						r.Violate("concurrent-panic", "concurrent Inverse/RowReduceForInverse n=%d: %s", p.N, pi.Msg)
					case j.nonsng && (e1 != nil || e2 != nil):
						r.Violate("wrong-result-under-concurrent-use", "n=%d: non-singular matrix reported singular (%v, %v) while %d goroutines work on different matrices", p.N, e1, e2, workers)
					case j.nonsng:
						if ok, d := equalsRef(inv, j.inv); !ok {
							r.Violate("wrong-result-under-concurrent-use", "Inverse n=%d wrong under concurrent use (%d goroutines, different matrices): %s", p.N, workers, d)
						} else if ok, d := equalsRef(red, j.red); !ok {
							r.Violate("wrong-result-under-concurrent-use", "RowReduceForInverse n=%d wrong under concurrent use: %s", p.N, d)
						}
					}
					mu.Unlock()
				}
			}
		}(w)
	}
	wg.Wait()
	r.Key("concurrent|n=%d", p.N)
	r.Sample(map[string]interface{}{"kind": "concurrent", "n": p.N, "goroutines": workers, "matrices": len(jobs)})
}
