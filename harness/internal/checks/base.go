package checks

import (
	"verifharness/internal/core"
)

// base supplies defaults for the core.Check interface.
type base struct {
	id          string
	level       string
	rule        string
	assumptions []string
	opts        core.WorkerOpts
}

func (b *base) ID() string            { return b.id }
func (b *base) Level() string         { return b.level }
func (b *base) Rule() string          { return b.rule }
func (b *base) Assumptions() []string { return b.assumptions }
func (b *base) Opts() core.WorkerOpts { return b.opts }

const (
	lvlExploration = "exploration"
	lvlFaultEnum   = "fault_enumeration"
)

var commonAssumptions = []string{
	"amd64 Linux as in this sandbox; Go toolchain, runtime, crypto/md5, hash/crc32 and the kernel are trusted",
	"reference arithmetic and reference PAR1/PAR2 readers/writers in /verif/harness/internal/ref encode my reading of the specifications and share no code with gopar",
	"held means: held on the executions this run produced; nothing is claimed about inputs, schedules or fault points outside the listed coverage",
}
