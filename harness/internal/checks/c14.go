package checks

import (
	"fmt"
	"math/rand"
	"os"
	"path/filepath"
	"sort"
	"strings"

	"github.com/akalin/gopar/par1"
	"github.com/akalin/gopar/par2"

	"verifharness/internal/core"
	"verifharness/internal/mon"
	"verifharness/internal/ref/par1rw"
	"verifharness/internal/scen"
)

// C14 — Repair converges and is idempotent over any history.

type c14 struct{ base }

type c14Params struct {
	Seed    int64  `json:"seed"`
	Fmt     string `json:"fmt"`
	Mode    string `json:"mode"`  // graph | walk
	First   int    `json:"first"` // state of file 0 (graph mode partition)
	Vols    int    `json:"vols"`  // volume mask (graph mode partition)
	Steps   int    `json:"steps,omitempty"`
	Content string `json:"content,omitempty"` // random | dup
}

var c14FileStates = []string{"original", "flipped", "shifted", "truncated", "other", "appended", "zerotrunc", "crcflip", "otherflip", "deleted"}

func init() {
	register(&c14{base{
		id:          "C14",
		level:       lvlExploration,
		rule:        "graph mode: a bounded model (PAR2: 3 files, 3 recovery blocks in 2 volume files; PAR1: 3 files, 2 volumes; per-file state in {original, flipped byte, shifted by an inserted byte, truncated, another protected file's content, another protected file's content with a flipped byte, garbage appended, last byte (a trailing zero) lost, CRC-32-preserving bit pattern, deleted}; PAR2 additionally with duplicate-slice content; per-volume state in {present, absent}) is explored to closure: every one of the 10^3 x 4 states is materialised on a real directory and every operation edge {Verify, Repair, Repair+double-check} is executed through the recording file-system seam (damage/restore/volume edges only move between states of the product and need no execution). Per edge: Verify leaves the directory unchanged; a successful Repair is followed by a clean Verify and by a second Repair that issues no write event; after a failed Repair every file is either what it was before or its original, and if the failed attempt wrote anything while the state was repairable with all recovery files back, it must still be repairable then; the resulting directory must again be a state of the model; and from every state whose damage is within capacity once all recovery files are restored (decided from the bytes by the brute-force finder / reference arithmetic) Repair must return to the all-original state. walk mode: seeded long random histories of damage, restore, volume loss/return, Verify and Repair on one persistent directory of a larger set, same per-step conditions. A key is (format, state tuple, operation). dangling mode: a protected file is a symbolic link into a deleted directory (missing and unwritable); Repair through the one-shot entry points and twice through one Decoder object (NewDecoder/Load*/Repair, link removed in between): nil means restored, and after the link is gone the next attempt must succeed. Mode all-lost: tiny sets whose recovery data covers every slice, all files deleted / emptied / overwritten, repaired twice.. Model state otherflip (another file's content with a flipped byte); if a failed Repair wrote anything while the state was repairable with every recovery file back, it must still be repairable then.. Every fourth all-lost set has a file above 16 KiB.. Mode copy-deleted (a file and its exact copy protected, one deleted, with and without recovery files); repeated content in all-lost sets.",
		assumptions: append([]string{"state between operations is only the directory (decoders are rebuilt from disk on every call), so edges can be executed from re-materialised states"}, commonAssumptions...),
		opts:        core.WorkerOpts{CrashIsViolation: true, WallSeconds: 2400, Exhaustive: true, Extra: map[string]interface{}{"exhaustive_subspace": "bounded model: 10^3 file-state tuples x 4 volume masks x {verify, repair, repair+doublecheck}, PAR1 and PAR2"}},
	}})
}

func (c *c14) Cases(tier string, seed int64) []core.Case {
	var cs []core.Case
	r := core.Rng("C14", tier, seed)
	sd := r.Int63()
	for _, f := range []string{"par2", "par1", "par2-dup"} {
		for first := 0; first < len(c14FileStates); first++ {
			for vols := 0; vols < 4; vols++ {
				ff, content := f, "random"
				if f == "par2-dup" {
					ff, content = "par2", "dup"
				}
				cs = append(cs, core.MkCase(fmt.Sprintf("%s-graph-f0=%s-vols=%02b", f, c14FileStates[first], vols), c14Params{Seed: sd, Fmt: ff, Mode: "graph", First: first, Vols: vols, Content: content}))
			}
		}
	}
	for _, f := range []string{"par2", "par1"} {
		cs = append(cs, core.MkCase(f+"-dangling-link", c14Params{Seed: sd, Fmt: f, Mode: "dangling"}))
		cs = append(cs, core.MkCase(f+"-all-data-lost", c14Params{Seed: r.Int63(), Fmt: f, Mode: "all-lost"}))
		cs = append(cs, core.MkCase(f+"-copy-deleted", c14Params{Seed: r.Int63(), Fmt: f, Mode: "copy-deleted"}))
	}
	n := map[string]int{"quick": 16, "thorough": 1000}[tier]
	for i := 0; i < n; i++ {
		f := []string{"par2", "par1"}[i%2]
		cs = append(cs, core.MkCase(fmt.Sprintf("%s-walk-%d", f, i), c14Params{Seed: r.Int63(), Fmt: f, Mode: "walk", Steps: map[string]int{"quick": 60, "thorough": 200}[tier]}))
	}
	return cs
}

// c14World: a model world over a real directory.
type c14World struct {
	fmt     string
	root    string
	dir     string
	idx     string
	files   []scen.File
	paths   []string
	slice   int
	volumes []string          // volume file names
	volData map[string][]byte // pristine volume bytes
	idxData []byte
	w18     *c18World // for capacity computation helpers
}

func (w *c14World) close() { os.RemoveAll(w.root) }

func newC14World(format string, seed int64, nfiles int) (*c14World, error) {
	base, err := newC18WorldN(format, seed, nfiles)
	if err != nil {
		if base != nil {
			base.close()
		}
		return nil, err
	}
	w := &c14World{fmt: format, root: base.root, dir: filepath.Join(base.tmpl, "set"), files: base.files, slice: base.slice, volData: map[string][]byte{}, w18: base}
	w.idx = filepath.Join(w.dir, base.idxName)
	w.idxData, _ = os.ReadFile(w.idx)
	for _, rel := range base.dataRel {
		w.paths = append(w.paths, filepath.Join(w.dir, rel))
	}
	ents, _ := os.ReadDir(w.dir)
	for _, e := range ents {
		n := e.Name()
		if strings.HasPrefix(n, "a.") && n != base.idxName {
			w.volumes = append(w.volumes, n)
			w.volData[n], _ = os.ReadFile(filepath.Join(w.dir, n))
		}
	}
	sort.Strings(w.volumes)
	return w, nil
}

// fileContent returns the bytes of file i in the given model state
// (nil, false = deleted).
func (w *c14World) fileContent(i int, state string) ([]byte, bool) {
	orig := w.files[i].Data
	switch state {
	case "original":
		return orig, true
	case "flipped":
		b := append([]byte(nil), orig...)
		if len(b) == 0 {
			return []byte{1}, true
		}
		b[len(b)/2] ^= 0x10
		return b, true
	case "shifted":
		b := append([]byte{0x7e}, orig...)
		return b, true
	case "truncated":
		return orig[:len(orig)*2/3], true
	case "other":
		return w.files[(i+1)%len(w.files)].Data, true
	case "otherflip":
		// another protected file's content with one byte flipped: the only
		// copy of most of that file's slices may live here
		b := append([]byte(nil), w.files[(i+1)%len(w.files)].Data...)
		if len(b) == 0 {
			return []byte{7}, true
		}
		b[len(b)/2] ^= 0x21
		return b, true
	case "crcflip":
		// damage that preserves the CRC-32 of the slice it lies in
		b := append([]byte(nil), orig...)
		if len(b) < 8 {
			return append(b, 0x33), true
		}
		pat := scen.CRCPreservingPattern(3)
		for k, x := range pat {
			b[1+k] ^= x
		}
		return b, true
	case "appended":
		return append(append([]byte(nil), orig...), 0x5a, 0x5b, 0x5c), true
	case "zerotrunc":
		// lose one trailing byte (a zero byte where the file ends in zeros)
		if len(orig) == 0 {
			return []byte{0}, true
		}
		return orig[:len(orig)-1], true
	}
	return nil, false
}

func (w *c14World) materialize(states []string, volMask int) {
	for i, s := range states {
		b, ok := w.fileContent(i, s)
		if !ok {
			os.Remove(w.paths[i])
		} else {
			os.MkdirAll(filepath.Dir(w.paths[i]), 0755)
			os.WriteFile(w.paths[i], b, 0644)
		}
	}
	for vi, v := range w.volumes {
		p := filepath.Join(w.dir, v)
		if volMask&(1<<uint(vi)) != 0 {
			os.WriteFile(p, w.volData[v], 0644)
		} else {
			os.Remove(p)
		}
	}
	os.WriteFile(w.idx, w.idxData, 0644)
}

// classify maps the directory back to model states ("?" if a file is
// in none of the model states).
func (w *c14World) classify() []string {
	out := make([]string, len(w.files))
	for i := range w.files {
		b, err := os.ReadFile(w.paths[i])
		if err != nil {
			out[i] = "deleted"
			continue
		}
		out[i] = "?"
		for _, s := range c14FileStates[:9] {
			if c, ok := w.fileContent(i, s); ok && string(c) == string(b) {
				out[i] = s
				break
			}
		}
	}
	return out
}

type c14Result struct {
	err      error
	panicked *core.PanicInfo
	clean    bool // verify: !RepairNeeded
	writes   []mon.IOEvent
}

func (w *c14World) exec(op string) c14Result {
	var res c14Result
	if w.fmt == "par2" {
		rec := &mon.RecFS{Inner: par2.VerifDefaultFileIO{}}
		res.panicked = core.Protect(func() {
			if op == "verify" {
				var vr par2.VerifyResult
				vr, res.err = par2.VerifVerify(rec, w.idx, par2.VerifyOptions{NumGoroutines: 2})
				res.clean = res.err == nil && !vr.ShardCounts.RepairNeeded()
			} else {
				_, res.err = par2.VerifRepair(rec, w.idx, par2.RepairOptions{NumGoroutines: 2, DoubleCheck: op == "repair-dc"})
			}
		})
		res.writes = rec.Writes()
	} else {
		rec := &mon.RecFS{Inner: par1.VerifDefaultFileIO{}}
		res.panicked = core.Protect(func() {
			if op == "verify" {
				var vr par1.VerifyResult
				vr, res.err = par1.VerifVerify(rec, w.idx, par1.VerifyOptions{VerifyAllData: true})
				res.clean = res.err == nil && !vr.FileCounts.RepairNeeded()
			} else {
				_, res.err = par1.VerifRepair(rec, w.idx, par1.RepairOptions{DoubleCheck: op == "repair-dc"})
			}
		})
		res.writes = rec.Writes()
	}
	return res
}

// step executes one operation edge on the current directory and judges it.
func (w *c14World) step(r *core.R, op, desc string) {
	before := scen.Snapshot(w.dir)
	beforeStates := w.classify()
	prev := map[int][]byte{}
	for i := range w.files {
		if b, err := os.ReadFile(w.paths[i]); err == nil {
			prev[i] = b
		}
	}
	capOK, capAllBefore := false, false
	if op != "verify" {
		capOK = w.w18.withinCapacity(filepath.Dir(w.dir))
		capAllBefore = capOK
		if !capOK {
			// capacity with every recovery file present: put them back for the
			// computation, then restore the volume state of this edge
			present := map[string]bool{}
			for _, v := range w.volumes {
				if _, err := os.Stat(filepath.Join(w.dir, v)); err == nil {
					present[v] = true
				} else {
					os.WriteFile(filepath.Join(w.dir, v), w.volData[v], 0644)
				}
			}
			capAllBefore = w.w18.withinCapacity(filepath.Dir(w.dir))
			for _, v := range w.volumes {
				if !present[v] {
					os.Remove(filepath.Join(w.dir, v))
				}
			}
		}
	}
	core.Note("C14 %s op=%s", desc, op)
	res := w.exec(op)
	if res.panicked != nil {
		r.Violate(core.CrashSig(w.fmt+"."+op, res.panicked.Frame, res.panicked.Msg), "%s: %s panicked: %s", desc, op, res.panicked.Msg)
		return
	}
	after := scen.Snapshot(w.dir)
	r.Count("edges_"+op, 1)
	if op == "verify" {
		if d := scen.DiffSnap(before, after); len(d) > 0 || len(res.writes) > 0 {
			r.Violate("verify-changed-state", "%s: Verify changed the directory: %v (write events %d)", desc, d, len(res.writes))
		}
		allOrig := true
		for _, s := range beforeStates {
			if s != "original" {
				allOrig = false
			}
		}
		if res.err == nil && res.clean != allOrig {
			r.Violate("verify-clean-mismatch", "%s: Verify clean=%v but file states are %v", desc, res.clean, beforeStates)
		}
		return
	}
	afterStates := w.classify()
	if res.err == nil {
		r.Count("repair_success", 1)
		for i, s := range afterStates {
			if s != "original" {
				r.Violate("successful-repair-left-damage", "%s: %s returned nil but file %d is %q afterwards (before: %v)", desc, op, i, s, beforeStates)
			}
		}
		v := w.exec("verify")
		if v.panicked == nil && (v.err != nil || !v.clean) {
			r.Violate("verify-not-clean-after-successful-repair", "%s: after a successful %s Verify says err=%v clean=%v", desc, op, v.err, v.clean)
		}
		again := w.exec(op)
		if again.panicked == nil && (again.err != nil || len(again.writes) > 0) {
			r.Violate("second-repair-not-idempotent", "%s: a second %s after success gives err=%v and %d write events %v", desc, op, again.err, len(again.writes), pathsOf(again.writes))
		}
		if d := scen.DiffSnap(after, scen.Snapshot(w.dir)); len(d) > 0 {
			r.Violate("second-repair-changed-state", "%s: %v", desc, d)
		}
	} else {
		r.Count("repair_failure", 1)
		for i := range w.files {
			b, err := os.ReadFile(w.paths[i])
			cur, had := prev[i]
			switch {
			case err != nil && !had:
			case err == nil && had && string(b) == string(cur):
			case err == nil && string(b) == string(w.files[i].Data):
			default:
				r.Violate("failed-repair-increased-damage", "%s: %s failed (%v) and file %d is now neither its previous content nor its original (state %q -> %q)", desc, op, res.err, i, beforeStates[i], afterStates[i])
			}
		}
		if capOK {
			r.Violate("repair-does-not-converge", "%s: damage is within capacity (recomputed from the bytes on disk) but %s failed: %v", desc, op, res.err)
		}
		// "... so repeated attempts as more recovery files arrive converge": if
		// the state before this failed attempt was repairable with every
		// recovery file back, it still is afterwards. (Checked when the failed
		// attempt wrote something; an attempt that wrote nothing changed nothing.)
		if len(res.writes) > 0 && capAllBefore {
			for _, v := range w.volumes {
				os.WriteFile(filepath.Join(w.dir, v), w.volData[v], 0644)
			}
			os.WriteFile(w.idx, w.idxData, 0644)
			again := w.exec("repair")
			r.Count("convergence_after_failed_writing_repair", 1)
			if again.panicked == nil && again.err != nil {
				r.Violate("repair-does-not-converge", "%s: before the failed %s (%v) the damage was within what all recovery files can repair; after it (it wrote %v) and with every recovery file back, Repair fails: %v", desc, op, res.err, pathsOf(res.writes), again.err)
			}
		}
	}
	for i, s := range afterStates {
		if s == "?" {
			r.Violate("state-left-the-model", "%s: after %s file %d holds content that is none of the model states", desc, op, i)
		}
	}
	for _, d := range scen.DiffSnap(before, after) {
		parts := strings.SplitN(d, " ", 2)
		isData := false
		for _, p := range w.paths {
			if rel, _ := filepath.Rel(w.dir, p); rel == parts[1] {
				isData = true
			}
		}
		if !isData {
			r.Violate("repair-touched-non-data-file", "%s: %s", desc, d)
		}
	}
}

// runDangling: a protected file is a symbolic link into a directory that is
// gone, so it is missing and cannot be written. Repair must fail (or really
// succeed); once the link is removed a further Repair - through the one-shot
// entry point and through the very Decoder object that saw the failure - must
// bring the original back.
func (c *c14) runDangling(r *core.R, p c14Params) {
	w, err := newC14World(p.Fmt, p.Seed, 3)
	if w != nil {
		defer w.close()
	}
	if err != nil {
		r.Violate("setup-create-failed", "%v", err)
		return
	}
	orig := []string{"original", "original", "original"}
	intact := func() []string {
		var bad []string
		for i, pth := range w.paths {
			b, err := os.ReadFile(pth)
			if err != nil || string(b) != string(w.files[i].Data) {
				bad = append(bad, w.files[i].Name)
			}
		}
		return bad
	}
	for i := range w.paths {
		if len(w.files[i].Data) == 0 && p.Fmt == "par1" {
			continue
		}
		if p.Fmt == "par2" && (len(w.files[i].Data)+w.slice-1)/w.slice > w.w18.blocks {
			continue // losing this file alone exceeds the recovery capacity
		}
		for _, how := range []string{"one-shot", "one-shot-dc", "same-decoder"} {
			w.materialize(orig, 3)
			os.Remove(w.paths[i])
			if os.Symlink(filepath.Join(w.root, "gone", "away", "target"), w.paths[i]) != nil {
				r.Inconclusive("symlink failed")
				return
			}
			desc := fmt.Sprintf("%s: %s is a dangling symbolic link into a deleted directory (%s)", p.Fmt, w.files[i].Name, how)
			core.Note("C14 %s", desc)
			var first, second error
			var pi *core.PanicInfo
			switch {
			case how != "same-decoder":
				op := map[string]string{"one-shot": "repair", "one-shot-dc": "repair-dc"}[how]
				res := w.exec(op)
				first, pi = res.err, res.panicked
				if pi == nil && first == nil {
					if bad := intact(); len(bad) > 0 {
						r.Violate("successful-repair-left-damage", "%s: Repair returned nil but %v are not the originals", desc, bad)
					}
				}
				os.Remove(w.paths[i]) // the link goes away; the file is now simply missing
				res = w.exec(op)
				second = res.err
				if pi == nil {
					pi = res.panicked
				}
			case p.Fmt == "par2":
				pi = core.Protect(func() {
					d, err := par2.NewDecoder(par2.DoNothingDecoderDelegate{}, w.idx, 2)
					if err != nil {
						first, second = err, err
						return
					}
					if err := d.LoadFileData(); err != nil {
						first, second = err, err
						return
					}
					if err := d.LoadParityData(); err != nil {
						first, second = err, err
						return
					}
					_, first = d.Repair(false)
					if first == nil {
						if bad := intact(); len(bad) > 0 {
							r.Violate("successful-repair-left-damage", "%s: Decoder.Repair returned nil but %v are not the originals", desc, bad)
						}
					}
					os.Remove(w.paths[i])
					_, second = d.Repair(false)
				})
			default:
				pi = core.Protect(func() {
					d, err := par1.NewDecoder(par1.DoNothingDecoderDelegate{}, w.idx)
					if err != nil {
						first, second = err, err
						return
					}
					if err := d.LoadFileData(); err != nil {
						first, second = err, err
						return
					}
					if err := d.LoadParityData(); err != nil {
						first, second = err, err
						return
					}
					_, first = d.Repair(false)
					if first == nil {
						if bad := intact(); len(bad) > 0 {
							r.Violate("successful-repair-left-damage", "%s: Decoder.Repair returned nil but %v are not the originals", desc, bad)
						}
					}
					os.Remove(w.paths[i])
					_, second = d.Repair(false)
				})
			}
			if pi != nil {
				r.Violate(core.CrashSig(p.Fmt+".Repair", pi.Frame, pi.Msg), "%s: panic %s", desc, pi.Msg)
				continue
			}
			r.Count("dangling_link_histories", 1)
			r.SetAdd("first_attempt_outcomes", fmt.Sprint(first))
			if second != nil {
				r.Violate("repair-does-not-converge", "%s: first attempt: %v; after the link was removed (one missing file, all recovery files present) the next attempt fails: %v", desc, first, second)
			} else if bad := intact(); len(bad) > 0 {
				r.Violate("successful-repair-left-damage", "%s: first attempt: %v; the next attempt returned nil but %v are not the originals", desc, first, bad)
			}
			r.Key("dangling|%s|%d|%s", p.Fmt, i, how)
		}
	}
	r.Sample(map[string]interface{}{"mode": "dangling", "format": p.Fmt, "files": len(w.paths)})
}

// runAllLost: sets small enough that the recovery data alone can rebuild
// everything; every protected file is lost (deleted, emptied or overwritten
// with junk of another length), so not a single data slice survives. Repair
// must restore all of them, as often as it is asked.
func (c *c14) runAllLost(r *core.R, p c14Params) {
	rng := rand.New(rand.NewSource(p.Seed))
	for trial := 0; trial < 12; trial++ {
		root, err := os.MkdirTemp("", "c14all-")
		if err != nil {
			r.Inconclusive("tempdir: %v", err)
			return
		}
		dir := filepath.Join(root, "set")
		os.MkdirAll(dir, 0755)
		nf := 1 + rng.Intn(3)
		slice := []int{4, 16, 64}[rng.Intn(3)]
		if trial%4 == 3 {
			slice = 2000 // with a file beyond 16 KiB below
		}
		var paths []string
		var datas [][]byte
		total := 0
		for i := 0; i < nf; i++ {
			b := scen.GenData(rng, "random", 1+rng.Intn(3*slice), slice)
			if trial%4 == 3 && i == 0 {
				b = scen.GenData(rng, "random", 16385+rng.Intn(4000), slice)
			}
			if trial%3 == 1 && i > 0 {
				// the same bytes under a second (third) name
				b = append([]byte(nil), datas[0]...)
			}
			pth := filepath.Join(dir, fmt.Sprintf("all%d.bin", i))
			os.WriteFile(pth, b, 0644)
			paths = append(paths, pth)
			datas = append(datas, b)
			total += (len(b) + slice - 1) / slice
		}
		var idx string
		var cerr error
		if p.Fmt == "par2" {
			idx = filepath.Join(dir, "all.par2")
			cerr = par2.Create(idx, paths, par2.CreateOptions{SliceByteCount: slice, NumParityShards: total + rng.Intn(3), NumGoroutines: 2})
		} else {
			idx = filepath.Join(dir, "all.par")
			cerr = par1.Create(idx, paths, par1.CreateOptions{NumParityFiles: nf + rng.Intn(2)})
		}
		if cerr != nil {
			r.Violate("setup-create-failed", "%v", cerr)
			os.RemoveAll(root)
			return
		}
		how := []string{"deleted", "emptied", "junk"}[trial%3]
		lose := func() {
			for _, pth := range paths {
				switch how {
				case "deleted":
					os.Remove(pth)
				case "emptied":
					os.WriteFile(pth, nil, 0644)
				default:
					os.WriteFile(pth, scen.Garbage(rng, 1+rng.Intn(5)), 0644)
				}
			}
		}
		desc := fmt.Sprintf("%s: %d files (%d slices of %d bytes), every one %s, all recovery files present", p.Fmt, nf, total, slice, how)
		for round := 0; round < 2; round++ {
			lose()
			core.Note("C14 %s round %d", desc, round)
			var rerr error
			pi := core.Protect(func() {
				if p.Fmt == "par2" {
					_, rerr = par2.Repair(idx, par2.RepairOptions{NumGoroutines: 2, DoubleCheck: round == 1})
				} else {
					_, rerr = par1.Repair(idx, par1.RepairOptions{DoubleCheck: round == 1})
				}
			})
			if pi != nil {
				r.Violate(core.CrashSig(p.Fmt+".Repair", pi.Frame, pi.Msg), "%s: panic %s", desc, pi.Msg)
				break
			}
			if rerr != nil {
				r.Violate("repair-does-not-converge", "%s: Repair fails although the recovery data covers every slice: %v", desc, rerr)
				break
			}
			for i, pth := range paths {
				if b, err := os.ReadFile(pth); err != nil || string(b) != string(datas[i]) {
					r.Violate("successful-repair-left-damage", "%s: Repair returned nil but %s is not the original", desc, filepath.Base(pth))
				}
			}
			r.Count("all_lost_repairs", 1)
		}
		r.Key("all-lost|%s|%d|%d|%s", p.Fmt, nf, slice, how)
		os.RemoveAll(root)
	}
	r.Sample(map[string]interface{}{"mode": "all-lost", "format": p.Fmt})
}

// runCopyDeleted: the set protects a file and an exact copy of it (plus a
// third file). The copy is deleted: it is missing, however complete its
// content is elsewhere. Verify must say so, Repair must bring it back - with
// and without recovery files - and then everything is clean.
func (c *c14) runCopyDeleted(r *core.R, p c14Params) {
	rng := rand.New(rand.NewSource(p.Seed))
	for trial := 0; trial < 8; trial++ {
		root, err := os.MkdirTemp("", "c14copy-")
		if err != nil {
			r.Inconclusive("tempdir: %v", err)
			return
		}
		dir := filepath.Join(root, "set")
		os.MkdirAll(dir, 0755)
		slice := []int{4, 16, 64}[rng.Intn(3)]
		orig := scen.GenData(rng, "random", slice*(2+rng.Intn(4))+rng.Intn(slice), slice)
		names := []string{"a original.bin", "b copy.bin", "c other.bin"}
		if trial%2 == 1 {
			names = []string{"z original.bin", "b copy.bin", "c other.bin"} // other ID order
		}
		datas := [][]byte{orig, append([]byte(nil), orig...), scen.GenData(rng, "random", 1+rng.Intn(3*slice), slice)}
		var paths []string
		for i, n := range names {
			pth := filepath.Join(dir, n)
			os.WriteFile(pth, datas[i], 0644)
			paths = append(paths, pth)
		}
		blocks := 1 + rng.Intn(2) // fewer blocks than the copy has slices
		var idx string
		var cerr error
		if p.Fmt == "par2" {
			idx = filepath.Join(dir, "copy.par2")
			cerr = par2.Create(idx, paths, par2.CreateOptions{SliceByteCount: slice, NumParityShards: blocks, NumGoroutines: 2})
		} else {
			idx = filepath.Join(dir, "copy.par")
			cerr = par1.Create(idx, paths, par1.CreateOptions{NumParityFiles: 2})
		}
		if cerr != nil {
			r.Violate("setup-create-failed", "%v", cerr)
			os.RemoveAll(root)
			return
		}
		if trial >= 4 && p.Fmt == "par2" {
			// no recovery file left: the copy can still be put back from its twin
			ents, _ := os.ReadDir(dir)
			for _, e := range ents {
				if strings.Contains(e.Name(), ".vol") {
					os.Remove(filepath.Join(dir, e.Name()))
				}
			}
		}
		victim := 1
		if trial%4 >= 2 {
			victim = 0
		}
		os.Remove(paths[victim])
		desc := fmt.Sprintf("%s: %q and %q hold the same %d bytes (slice %d, %d blocks, trial %d); %q deleted", p.Fmt, names[0], names[1], len(orig), slice, blocks, trial, names[victim])
		core.Note("C14 %s", desc)
		clean := func() (bool, error) {
			if p.Fmt == "par2" {
				vr, err := par2.Verify(idx, par2.VerifyOptions{NumGoroutines: 2})
				return err == nil && !vr.ShardCounts.RepairNeeded(), err
			}
			vr, err := par1.Verify(idx, par1.VerifyOptions{})
			return err == nil && !vr.FileCounts.RepairNeeded(), err
		}
		var c1, c2 bool
		var verr, rerr error
		pi := core.Protect(func() {
			c1, verr = clean()
			if p.Fmt == "par2" {
				_, rerr = par2.Repair(idx, par2.RepairOptions{NumGoroutines: 2, DoubleCheck: trial%2 == 0})
			} else {
				_, rerr = par1.Repair(idx, par1.RepairOptions{DoubleCheck: trial%2 == 0})
			}
			c2, _ = clean()
		})
		switch {
		case pi != nil:
			r.Violate(core.CrashSig(p.Fmt, pi.Frame, pi.Msg), "%s: panic %s", desc, pi.Msg)
		case verr == nil && c1:
			r.Violate("verify-clean-mismatch", "%s: Verify reports nothing to repair while the file is missing", desc)
		case rerr != nil:
			r.Violate("repair-does-not-converge", "%s: Repair fails: %v", desc, rerr)
		default:
			if b, err := os.ReadFile(paths[victim]); err != nil || string(b) != string(datas[victim]) {
				r.Violate("successful-repair-left-damage", "%s: Repair returned nil but the file is not back", desc)
			} else if !c2 {
				r.Violate("verify-not-clean-after-successful-repair", "%s", desc)
			}
		}
		r.Count("copy_deleted_histories", 1)
		r.Key("copy-deleted|%s|%d", p.Fmt, trial)
		os.RemoveAll(root)
	}
	r.Sample(map[string]interface{}{"mode": "copy-deleted", "format": p.Fmt})
}

func (c *c14) Run(cs core.Case) core.Result {
	var p c14Params
	core.Decode(cs, &p)
	r := core.NewR(cs)
	if p.Mode == "copy-deleted" {
		c.runCopyDeleted(r, p)
		return r.Done()
	}
	if p.Mode == "all-lost" {
		c.runAllLost(r, p)
		return r.Done()
	}
	if p.Mode == "dangling" {
		c.runDangling(r, p)
		return r.Done()
	}
	if p.Mode == "graph" {
		c18Content = p.Content
		w, err := newC14World(p.Fmt, p.Seed, 3)
		c18Content = ""
		if w != nil {
			defer w.close()
		}
		if err != nil {
			r.Violate("setup-create-failed", "%v", err)
			return r.Done()
		}
		if len(w.volumes) != 2 {
			r.Inconclusive("expected 2 volume files, have %v", w.volumes)
			return r.Done()
		}
		ns := len(c14FileStates)
		n := 0
		for s1 := 0; s1 < ns; s1++ {
			for s2 := 0; s2 < ns; s2++ {
				states := []string{c14FileStates[p.First], c14FileStates[s1], c14FileStates[s2]}
				for _, op := range []string{"verify", "repair", "repair-dc"} {
					n++
					if !core.Sub(n) {
						continue
					}
					w.materialize(states, p.Vols)
					desc := fmt.Sprintf("%s(%s content) state=%v volumes=%02b", p.Fmt, p.Content, states, p.Vols)
					w.step(r, op, desc)
					r.Key("%s|%s|%v|%02b|%s", p.Fmt, p.Content, states, p.Vols, op)
					r.SetAdd("states", fmt.Sprintf("%s|%s|%v|%02b", p.Fmt, p.Content, states, p.Vols))
				}
				// convergence once all recovery files are back
				if p.Vols != 3 {
					n++
					if core.Sub(n) {
						w.materialize(states, 3)
						if w.w18.withinCapacity(filepath.Dir(w.dir)) {
							w.step(r, "repair", fmt.Sprintf("%s state=%v after all volumes were restored (from %02b)", p.Fmt, states, p.Vols))
							r.Count("convergence_checks", 1)
						}
					}
				}
			}
		}
		r.Sample(map[string]interface{}{"mode": "graph", "format": p.Fmt, "file0": c14FileStates[p.First], "volume_mask": fmt.Sprintf("%02b", p.Vols), "states": ns * ns, "ops_per_state": 3})
		return r.Done()
	}
	// walk mode
	rng := rand.New(rand.NewSource(p.Seed))
	w, err := newC14World(p.Fmt, p.Seed, 4+rng.Intn(3))
	if w != nil {
		defer w.close()
	}
	if err != nil {
		r.Violate("setup-create-failed", "%v", err)
		return r.Done()
	}
	states := make([]string, len(w.files))
	for i := range states {
		states[i] = "original"
	}
	volMask := 1<<uint(len(w.volumes)) - 1
	w.materialize(states, volMask)
	var hist []string
	for step := 0; step < p.Steps; step++ {
		if !core.Sub(step) {
			// replay the model part deterministically
		}
		k := rng.Intn(10)
		switch {
		case k < 3:
			i := rng.Intn(len(w.files))
			s := c14FileStates[1+rng.Intn(8)]
			b, ok := w.fileContent(i, s)
			if !ok {
				os.Remove(w.paths[i])
			} else {
				os.WriteFile(w.paths[i], b, 0644)
			}
			hist = append(hist, fmt.Sprintf("damage(f%d,%s)", i, s))
		case k == 3:
			i := rng.Intn(len(w.files))
			os.WriteFile(w.paths[i], w.files[i].Data, 0644)
			hist = append(hist, fmt.Sprintf("restore(f%d)", i))
		case k == 4:
			vi := rng.Intn(len(w.volumes))
			os.Remove(filepath.Join(w.dir, w.volumes[vi]))
			hist = append(hist, fmt.Sprintf("lose(%s)", w.volumes[vi]))
		case k == 5:
			vi := rng.Intn(len(w.volumes))
			os.WriteFile(filepath.Join(w.dir, w.volumes[vi]), w.volData[w.volumes[vi]], 0644)
			hist = append(hist, fmt.Sprintf("return(%s)", w.volumes[vi]))
		case k == 6:
			hist = append(hist, "verify")
			w.step(r, "verify", fmt.Sprintf("%s walk history=%v", p.Fmt, tailList(hist, 12)))
		default:
			op := []string{"repair", "repair-dc"}[rng.Intn(2)]
			hist = append(hist, op)
			w.step(r, op, fmt.Sprintf("%s walk history=%v", p.Fmt, tailList(hist, 12)))
		}
		r.Key("%s|walk|%d|%s", p.Fmt, p.Seed, hist[len(hist)-1])
		if len(r.Done().More) > 6 {
			break
		}
	}
	// final convergence: bring every recovery file back and repair
	for _, v := range w.volumes {
		os.WriteFile(filepath.Join(w.dir, v), w.volData[v], 0644)
	}
	if w.w18.withinCapacity(filepath.Dir(w.dir)) {
		w.step(r, "repair", fmt.Sprintf("%s walk end (all recovery files returned) history tail=%v", p.Fmt, tailList(hist, 12)))
		r.Count("convergence_checks", 1)
	}
	r.Sample(map[string]interface{}{"mode": "walk", "format": p.Fmt, "files": len(w.files), "steps": p.Steps, "history_head": tailList(hist, 0)[:minInt(len(hist), 14)]})
	_ = par1rw.Hash16k
	return r.Done()
}

func tailList(a []string, n int) []string {
	if n > 0 && len(a) > n {
		return a[len(a)-n:]
	}
	return a
}
