package checks

import (
	"fmt"
	"sort"
	"strings"

	"github.com/akalin/gopar/par2"
	"math/rand"
	"os"
	"path/filepath"

	"verifharness/internal/core"
	"verifharness/internal/ref/par2rw"
	"verifharness/internal/scen"
)

// C05 — created PAR2 sets are valid PAR2 with the specified RS data.

type c05 struct{ base }

type c05Params struct {
	Seed int64  `json:"seed"`
	Kind string `json:"kind"`
}

func init() {
	register(&c05{base{
		id:          "C05",
		level:       lvlExploration,
		rule:        "each case draws a file set (1..12 files, sizes around the slice size and around 16384, names in sub-directories, random/zero/periodic/duplicate-slice content), a slice size, a recovery-block count (1..hundreds) and a goroutine count, runs the real par2.Create on a real directory and hands EVERY file it wrote to an independent PAR2 reader that re-derives all IDs, hashes, checksums and every recovery block sum(slice_i*c_i^e) with reference arithmetic; kinds: small, many-blocks (>100 blocks, 3-digit volume names), many-slices (>256 / thousands of slices), limit (32768 slices, thorough). A key is (kind, slice size, files, blocks, goroutines, total slices). Every seventh set lists some inputs twice under other spellings: Create must refuse the list or write a conformant set of the distinct files. Kind obstacle: a directory squats on the name of one recovery file (learnt from a trial run): Create must return an error. Also: sets written through ONE par2.Encoder object whose LoadFileData step is repeated (after a missing input, after the files changed, unchanged) - an error is accepted, a nil result is validated like any other set; kind unreadable-input (a directory, a missing path or a dangling link among the inputs): Create must fail.. Kind big-slice: packet bodies above 64 KiB (slices of 64-128 KiB, files of 3300+ slices).. Kind many-both-max (420-520 slices x 190-230 blocks). Kind illegal-slice-size: Create with sizes that are not a positive multiple of 4 may refuse; whatever it writes must still be a packet stream whose main packet declares a legal slice size. Kind refusable-input (a Latin-1, a UTF-8 and a control-character name, an empty file first or last): refused, or the complete set validated like any other. Kind recreate-changed-tail: files above 16 KiB edited behind their first 16 KiB and protected again in the same process (same file IDs and set ID), three generations.",
		assumptions: append([]string{"file ID input is (16k hash, length, name without NUL padding), the reading par2cmdline implements"}, commonAssumptions...),
		opts:        core.WorkerOpts{CrashIsViolation: true, WallSeconds: 2400},
	}})
}

func (c *c05) Cases(tier string, seed int64) []core.Case {
	var cs []core.Case
	r := core.Rng("C05", tier, seed)
	n := map[string]int{"quick": 260, "thorough": 15000}[tier]
	for i := 0; i < n; i++ {
		cs = append(cs, core.MkCase(fmt.Sprintf("small-%d", i), c05Params{r.Int63(), "small"}))
	}
	nb := map[string]int{"quick": 7, "thorough": 105}[tier]
	for i := 0; i < nb; i++ {
		cs = append(cs, core.MkCase(fmt.Sprintf("many-blocks-%d", i), c05Params{r.Int63(), "many-blocks"}))
		// the slice-count class is chosen by bits 8.. of the seed: cycle through all classes
		cs = append(cs, core.MkCase(fmt.Sprintf("many-slices-%d", i), c05Params{r.Int63()&^(0xffff<<8) | int64(i)<<8, "many-slices"}))
	}
	cs = append(cs, core.MkCase("near-16k", c05Params{r.Int63(), "near-16k"}))
	cs = append(cs, core.MkCase("many-slices-and-blocks-max", c05Params{r.Int63(), "many-both-max"}))
	for i := 0; i < map[string]int{"quick": 5, "thorough": 80}[tier]; i++ {
		for _, h := range encoderHistories {
			cs = append(cs, core.MkCase(fmt.Sprintf("encoder-%s-%d", h, i), c05Params{r.Int63(), "encoder:" + h}))
		}
	}
	for i := 0; i < map[string]int{"quick": 6, "thorough": 60}[tier]; i++ {
		cs = append(cs, core.MkCase(fmt.Sprintf("obstacle-%d", i), c05Params{r.Int63(), "obstacle"}))
		if i < 2 || tier == "thorough" {
			cs = append(cs, core.MkCase(fmt.Sprintf("illegal-slice-size-%d", i), c05Params{r.Int63(), "illegal-slice-size"}))
			cs = append(cs, core.MkCase(fmt.Sprintf("refusable-input-%d", i), c05Params{r.Int63(), "refusable-input"}))
			cs = append(cs, core.MkCase(fmt.Sprintf("recreate-changed-tail-%d", i), c05Params{r.Int63(), "recreate-changed-tail"}))
		}
		cs = append(cs, core.MkCase(fmt.Sprintf("unreadable-input-%d", i), c05Params{r.Int63(), "unreadable-input"}))
		if i < 3 || tier == "thorough" && i < 20 {
			cs = append(cs, core.MkCase(fmt.Sprintf("big-slice-%d", i), c05Params{r.Int63(), "big-slice"}))
		}
	}
	for i := 0; i < map[string]int{"quick": 3, "thorough": 30}[tier]; i++ {
		cs = append(cs, core.MkCase(fmt.Sprintf("many-slices-and-blocks-%d", i), c05Params{r.Int63(), "many-both"}))
	}
	if tier == "thorough" {
		cs = append(cs, core.MkCase("limit-32768-slices", c05Params{r.Int63(), "limit"}))
		cs = append(cs, core.MkCase("limit-32769-slices", c05Params{r.Int63(), "over-limit"}))
	}
	return cs
}

func (c *c05) Run(cs core.Case) core.Result {
	var p c05Params
	core.Decode(cs, &p)
	r := core.NewR(cs)
	rng := rand.New(rand.NewSource(p.Seed))
	if p.Kind == "illegal-slice-size" {
		c.runIllegalSliceSize(r, rng)
		return r.Done()
	}
	if p.Kind == "recreate-changed-tail" {
		c.runRecreateChangedTail(r, rng)
		return r.Done()
	}
	if p.Kind == "refusable-input" {
		c.runRefusableInput(r, rng)
		return r.Done()
	}
	var set scen.Set
	g := []int{1, 2, 3, 7, 16, 64}[rng.Intn(6)]
	checkBlocks := true
	switch p.Kind {
	case "small":
		set = genP2Set(rng, 12, scen.ContentKinds, true)
	case "many-blocks":
		set = genP2Set(rng, 4, []string{"random"}, false)
		set.Blocks = []int{100, 127, 128, 129, 255, 256, 300}[rng.Intn(7)]
		if set.SliceSize > 100 {
			set.SliceSize = 64
			for i := range set.Files {
				if len(set.Files[i].Data) > 640 {
					set.Files[i].Data = set.Files[i].Data[:640]
				}
			}
		}
	case "many-slices":
		slice := []int{4, 8}[rng.Intn(2)]
		total := []int{257, 1025, 2500, 300, 1000, 1024, 4097}[int(p.Seed>>8&0xffff)%7]
		set = scen.Set{SliceSize: slice, Blocks: 1 + rng.Intn(3), Content: "random"}
		nf := 1 + rng.Intn(3)
		for i := 0; i < nf; i++ {
			n := total * slice / nf
			if i == 0 {
				n -= rng.Intn(slice)
			}
			set.Files = append(set.Files, scen.File{Name: scen.GenName(rng, i, true, true), Data: scen.GenData(rng, "random", n, slice)})
		}
	case "many-both-max":
		// the largest products of slice index and block index of the quick tier
		slice := []int{4, 8}[rng.Intn(2)]
		set = scen.Set{SliceSize: slice, Blocks: 190 + rng.Intn(40), Content: "random"}
		total := 420 + rng.Intn(100)
		set.Files = append(set.Files, scen.File{Name: "wide.bin", Data: scen.GenData(rng, "random", total*slice-rng.Intn(slice), slice)})
	case "many-both":
		// hundreds of slices x about a hundred blocks with slices short enough
		// for the scalar kernels: a large sample of coefficients c_i^e
		slice := []int{4, 8, 12, 20, 28}[rng.Intn(5)]
		set = scen.Set{SliceSize: slice, Blocks: 76 + rng.Intn(70), Content: "random"}
		total := 153 + rng.Intn(250)
		nf := 1 + rng.Intn(3)
		for i := 0; i < nf; i++ {
			n := total*slice/nf - rng.Intn(slice)
			set.Files = append(set.Files, scen.File{Name: scen.GenName(rng, i, true, true), Data: scen.GenData(rng, "random", n, slice)})
		}
	case "encoder:retry-after-missing-input", "encoder:reload-after-files-changed", "encoder:reload-unchanged":
		set = genP2Set(rng, 6, []string{"random", "random", "dupslices"}, false)
		for len(set.Files) < 2 {
			set.Files = append(set.Files, scen.File{Name: fmt.Sprintf("second-%d.bin", len(set.Files)), Data: scen.GenData(rng, "random", 1+rng.Intn(3*set.SliceSize), set.SliceSize)})
		}
	case "big-slice":
		// packets whose bodies exceed 64 KiB (recovery packets of large slices,
		// checksum packets of files with thousands of slices)
		if rng.Intn(2) == 0 {
			slice := []int{65536, 65540, 70000, 131072}[rng.Intn(4)]
			set = scen.Set{SliceSize: slice, Blocks: 1 + rng.Intn(3), Content: "random"}
			set.Files = append(set.Files, scen.File{Name: "large-slices.bin", Data: scen.GenData(rng, "random", slice+1+rng.Intn(2*slice), slice)})
			set.Files = append(set.Files, scen.File{Name: "small.bin", Data: scen.GenData(rng, "random", 1+rng.Intn(5000), slice)})
		} else {
			set = scen.Set{SliceSize: 4, Blocks: 1 + rng.Intn(2), Content: "random"}
			set.Files = append(set.Files, scen.File{Name: "many-slices.bin", Data: scen.GenData(rng, "random", 4*(3300+rng.Intn(900))-rng.Intn(4), 4)})
		}
	case "unreadable-input":
		set = genP2Set(rng, 4, []string{"random"}, false)
	case "obstacle":
		set = genP2Set(rng, 4, []string{"random"}, false)
		set.Blocks = 2 + rng.Intn(9)
	case "near-16k":
		set = scen.Set{SliceSize: 2000, Blocks: 2, Content: "random"}
		for i, n := range []int{16383, 16384, 16385, 16380, 32768} {
			set.Files = append(set.Files, scen.File{Name: fmt.Sprintf("k%d.bin", i), Data: scen.GenData(rng, "random", n, 2000)})
		}
	case "limit", "over-limit":
		n := 32768
		if p.Kind == "over-limit" {
			n = 32769
		}
		set = scen.Set{SliceSize: 4, Blocks: 2, Content: "random"}
		set.Files = append(set.Files, scen.File{Name: "big.bin", Data: scen.GenData(rng, "random", n*4-1, 4)})
		g = 16
	}
	// History: every fourth case re-creates over an older archive of the same
	// name whose files are longer (what an earlier Create with a smaller slice
	// size or more blocks leaves behind).
	p2PreCreate = nil
	var preSnap map[string]string
	if p.Seed%4 == 1 && p.Kind != "limit" && p.Kind != "over-limit" && p.Kind != "obstacle" && !strings.HasPrefix(p.Kind, "encoder:") {
		p2PreCreate = func(dir, idx string, paths []string) {
			older := set.SliceSize / 2
			if older < 4 || older%4 != 0 {
				older = 4
			}
			if older == set.SliceSize {
				older = set.SliceSize + 4
			}
			par2.Create(idx, paths, par2.CreateOptions{SliceByteCount: older, NumParityShards: set.Blocks + 3, NumGoroutines: 2})
			preSnap = scen.Snapshot(dir)
		}
	}
	// Every seventh case lists some inputs more than once, under other
	// spellings of the same path: the set is still the set of distinct files.
	p2CreatePaths = nil
	repeated := false
	if p.Seed%7 == 3 && p.Kind == "small" {
		p2CreatePaths = func(dir string, paths []string) []string {
			out := append([]string(nil), paths...)
			for k := 0; k < 1+rng.Intn(2); k++ {
				src := paths[rng.Intn(len(paths))]
				rel, _ := filepath.Rel(dir, src)
				alt := []string{src, dir + "/./" + rel, dir + "//" + rel, filepath.Dir(src) + "/../" + filepath.Base(filepath.Dir(src)) + "/" + filepath.Base(src)}[rng.Intn(4)]
				at := rng.Intn(len(out) + 1)
				out = append(out[:at], append([]string{alt}, out[at:]...)...)
			}
			r.Count("sets_with_repeated_inputs", 1)
			repeated = true
			return out
		}
	}
	// Kind unreadable-input: one of the listed inputs cannot be read (it is a
	// directory, it does not exist, or it is a dangling link); Create has to fail.
	unreadable := ""
	if p.Kind == "unreadable-input" {
		p2CreatePaths = func(dir string, paths []string) []string {
			out := append([]string(nil), paths...)
			bad := filepath.Join(dir, "unreadable-input")
			switch rng.Intn(3) {
			case 0:
				os.MkdirAll(filepath.Join(bad, "inner"), 0755)
				unreadable = "a directory"
			case 1:
				unreadable = "a path that does not exist"
			default:
				os.Symlink(filepath.Join(dir, "no", "such", "target"), bad)
				unreadable = "a dangling symbolic link"
			}
			at := rng.Intn(len(out) + 1)
			return append(out[:at], append([]string{bad}, out[at:]...)...)
		}
	}
	// An obstacle: a directory sits where one of the recovery files has to go.
	obstacle := ""
	if p.Kind == "obstacle" {
		prev := p2PreCreate
		p2PreCreate = func(dir, idx string, paths []string) {
			if prev != nil {
				prev(dir, idx, paths)
			}
			before := scen.Snapshot(dir)
			if par2.Create(idx, paths, par2.CreateOptions{SliceByteCount: set.SliceSize, NumParityShards: set.Blocks, NumGoroutines: 1}) != nil {
				return
			}
			var made []string
			for name := range scen.Snapshot(dir) {
				if _, ok := before[name]; !ok {
					made = append(made, name)
				}
			}
			sort.Strings(made)
			for _, name := range made {
				os.Remove(filepath.Join(dir, name))
			}
			var volNames []string
			for _, name := range made {
				if strings.Contains(name, ".vol") {
					volNames = append(volNames, name)
				}
			}
			if len(volNames) > 0 {
				obstacle = volNames[rng.Intn(len(volNames))]
				os.MkdirAll(filepath.Join(dir, obstacle, "squatter"), 0755)
			}
		}
	}
	// Kind encoder-history: the set is written through one par2.Encoder object
	// that loads the inputs more than once (after a failure, after the files
	// changed, or for no reason).
	histRefused := false
	if strings.HasPrefix(p.Kind, "encoder:") {
		hist := strings.TrimPrefix(p.Kind, "encoder:")
		p2CreateHook = func(idx string, paths []string, slice, blocks, g int) (error, *core.PanicInfo) {
			err, ref, pi := p2CreateVia(hist, rng, idx, paths, slice, blocks, g)
			histRefused = ref
			return err, pi
		}
		r.Count("encoder_histories|"+hist, 1)
	}
	p2SymlinkInputs = p.Seed%5 == 2 && !strings.HasPrefix(p.Kind, "encoder:")
	outBase := "out"
	if p.Seed%3 == 0 {
		outBase = []string{"out 100%", "o%sut", "%d"}[(p.Seed/3)%3]
	}
	env, err := newP2Env(set, outBase, g)
	p2PreCreate = nil
	p2CreatePaths = nil
	p2CreateHook = nil
	p2SymlinkInputs = false
	if histRefused && err != nil {
		// the Encoder declined to load again: acceptable, nothing was written
		r.Count("encoder_history_refused", 1)
		if env != nil {
			env.close()
		}
		return r.Done()
	}
	if env != nil {
		defer env.close()
	}
	if repeated && err != nil && strings.HasPrefix(err.Error(), "Create: ") {
		// refusing a list that names a file twice is fine (PAR1 does, too);
		// accepting it obliges Create to write a conformant set of the
		// distinct files, which the rest of this function validates
		r.Count("create_refused_repeated_input", 1)
		r.Key("repeated-input-refused|%s", p.Kind)
		r.Sample(map[string]interface{}{"kind": p.Kind, "repeated_inputs": true, "outcome": fmt.Sprint(err)})
		return r.Done()
	}
	if p.Kind == "unreadable-input" {
		r.Key("unreadable-input|%s|%v", unreadable, err != nil)
		r.Sample(map[string]interface{}{"kind": p.Kind, "unreadable": unreadable, "outcome": fmt.Sprint(err)})
		if err == nil || !strings.HasPrefix(err.Error(), "Create: ") {
			r.Violate("create-ok-despite-unreadable-input", "one listed input is %s; Create: %v (a set written now silently leaves that input out)", unreadable, err)
		} else {
			r.Count("create_refused_unreadable_input", 1)
		}
		return r.Done()
	}
	if p.Kind == "obstacle" {
		// Create cannot write that recovery file: it has to say so. (If it
		// returned nil, newP2Env's postcondition reports the missing blocks.)
		r.Key("obstacle|%s|b=%d", map[bool]string{true: "refused", false: "not-refused"}[err != nil], set.Blocks)
		r.Sample(map[string]interface{}{"kind": p.Kind, "obstacle": obstacle, "blocks": set.Blocks, "outcome": fmt.Sprint(err)})
		switch {
		case obstacle == "":
			r.Inconclusive("no recovery file name learnt")
		case err == nil:
			r.Violate("create-ok-despite-unwritable-recovery-file", "Create returned nil although %s is a directory", obstacle)
		case !strings.HasPrefix(err.Error(), "Create: "):
			r.Violate("create-failed", "%v (a directory sits at %s)", err, obstacle)
		default:
			r.Count("create_refused_obstacle", 1)
		}
		return r.Done()
	}
	if p.Kind == "over-limit" {
		if err == nil {
			r.Violate("created-beyond-slice-limit", "Create succeeded for 32769 slices; the format has only 32768 constants")
		}
		r.Key("over-limit")
		r.Sample(map[string]interface{}{"kind": p.Kind})
		return r.Done()
	}
	if err != nil {
		r.Violate("create-failed", "%v (set %v, g=%d)", err, setSummary(set), g)
		return r.Done()
	}
	// Every file in the directory that is not an input was written by Create.
	var created []par2rw.CreatedFile
	inputs := map[string]bool{}
	for _, pth := range env.paths {
		inputs[pth] = true
	}
	filepath.Walk(env.dir, func(pth string, info os.FileInfo, err error) error {
		if err == nil && info.Mode().IsRegular() && !inputs[pth] {
			if preSnap != nil {
				// leftovers of the older archive that the Create under test did
				// not write are not its output
				rel, _ := filepath.Rel(env.dir, pth)
				if cur := scen.Snapshot(env.dir)[rel]; cur == preSnap[rel] {
					return nil
				}
			}
			b, _ := os.ReadFile(pth)
			created = append(created, par2rw.CreatedFile{Name: filepath.Base(pth), Data: b})
		}
		return nil
	})
	var in []par2rw.InFile
	for _, f := range set.Files {
		in = append(in, par2rw.InFile{Name: f.Name, Data: f.Data})
	}
	problems, nb := par2rw.ValidateCreated(set.SliceSize, in, set.Blocks, outBase+".par2", created, checkBlocks)
	for _, pr := range problems {
		r.Violate("nonconformant|"+classify(pr), "%s  [set %v g=%d]", pr, setSummary(set), g)
	}
	// Inputs untouched.
	for i, f := range set.Files {
		if b, err := os.ReadFile(env.paths[i]); err != nil || string(b) != string(f.Data) {
			r.Violate("create-modified-input", "input %s changed during Create", f.Name)
		}
	}
	r.Count("files_validated", int64(len(created)))
	r.Count("recovery_blocks_recomputed", int64(nb))
	r.Count("sets", 1)
	r.Key("%s|s=%d|f=%d|b=%d|g=%d|n=%d", p.Kind, set.SliceSize, len(set.Files), set.Blocks, g, set.TotalSlices())
	ss := setSummary(set)
	ss["kind"] = p.Kind
	ss["goroutines"] = g
	ss["files_written"] = len(created)
	r.Sample(ss)
	return r.Done()
}

// classify reduces a problem text to a stable class for signatures.
func classify(s string) string {
	for _, k := range []string{"recovery block", "set ID", "main packet", "file description", "checksum", "creator", "well-formed", "index file", "name", "unexpected"} {
		if containsFold(s, k) {
			return k
		}
	}
	return "other"
}

func containsFold(s, sub string) bool {
	return len(s) >= len(sub) && (indexFold(s, sub) >= 0)
}

func indexFold(s, sub string) int {
	ls, lsub := []byte(s), []byte(sub)
	for i := 0; i+len(lsub) <= len(ls); i++ {
		ok := true
		for j := range lsub {
			a, b := ls[i+j], lsub[j]
			if a >= 'A' && a <= 'Z' {
				a += 32
			}
			if b >= 'A' && b <= 'Z' {
				b += 32
			}
			if a != b {
				ok = false
				break
			}
		}
		if ok {
			return i
		}
	}
	return -1
}

// runIllegalSliceSize: slice sizes the format does not allow (not a positive
// multiple of 4). Create may refuse; whatever file it writes nevertheless is
// judged like any other: a packet stream whose main packet declares a legal
// slice size.
func (c *c05) runIllegalSliceSize(r *core.R, rng *rand.Rand) {
	root, err := os.MkdirTemp("", "c05ill-")
	if err != nil {
		r.Inconclusive("tempdir: %v", err)
		return
	}
	defer os.RemoveAll(root)
	for _, size := range []int{1, 2, 3, 5, 6, 10, 14, 1002, 2001, 4098, -4, -6, 0x7ffffffe} {
		dir := filepath.Join(root, fmt.Sprintf("s%d", size))
		os.MkdirAll(dir, 0755)
		var paths []string
		for i := 0; i < 2+rng.Intn(2); i++ {
			pth := filepath.Join(dir, fmt.Sprintf("in%d.dat", i))
			os.WriteFile(pth, scen.GenData(rng, "random", 20+rng.Intn(3000), 4), 0644)
			paths = append(paths, pth)
		}
		before := scen.Snapshot(dir)
		var cerr error
		if pi := core.Protect(func() {
			cerr = par2.Create(filepath.Join(dir, "ill.par2"), paths, par2.CreateOptions{SliceByteCount: size, NumParityShards: 1 + rng.Intn(4), NumGoroutines: 1 + rng.Intn(3)})
		}); pi != nil {
			r.Violate("create-panic|"+pi.Frame, "Create with slice size %d: %s", size, pi.Msg)
			continue
		}
		r.Count("illegal_slice_size_creates", 1)
		r.SetAdd("illegal_slice_size_outcomes", fmt.Sprintf("refused=%v", cerr != nil))
		for name := range scen.Snapshot(dir) {
			if _, was := before[name]; was {
				continue
			}
			b, _ := os.ReadFile(filepath.Join(dir, name))
			pk, perr := par2rw.ParseStrict(b)
			if perr != nil {
				r.Violate("nonconformant|packet stream", "Create with slice size %d (err=%v) wrote %s, which is not a packet stream: %v", size, cerr, name, perr)
				continue
			}
			for _, q := range pk {
				if q.Type == par2rw.TypeMain {
					if m, derr := par2rw.DecodeMain(q.Body); derr != nil || m.SliceSize == 0 || m.SliceSize%4 != 0 {
						r.Violate("nonconformant|main packet slice size", "Create with slice size %d (err=%v) wrote %s whose main packet declares slice size %d (decode error %v)", size, cerr, name, m.SliceSize, derr)
					}
				}
			}
		}
		r.Key("illegal-slice-size|%d", size)
	}
	r.Sample(map[string]interface{}{"kind": "illegal-slice-size", "sizes": "1,2,3,5,6,10,14,1002,2001,4098,-4,-6,2^31-2"})
}

// runRefusableInput: inputs this implementation may refuse (a name that is
// not ASCII, an empty file among others). Either Create says so, or the set
// it wrote is complete and correct like any other.
func (c *c05) runRefusableInput(r *core.R, rng *rand.Rand) {
	root, err := os.MkdirTemp("", "c05ref-")
	if err != nil {
		r.Inconclusive("tempdir: %v", err)
		return
	}
	defer os.RemoveAll(root)
	for vi, variant := range []string{"latin1-name", "utf8-name", "empty-file-first", "empty-file-last", "control-char-name"} {
		dir := filepath.Join(root, fmt.Sprintf("v%d", vi))
		os.MkdirAll(dir, 0755)
		slice := 4 * (1 + rng.Intn(40))
		var in []par2rw.InFile
		names := []string{"plain-a.dat", "plain-b.dat", "plain-c.dat"}
		switch variant {
		case "latin1-name":
			names[1] = "caf\xe9.dat"
		case "utf8-name":
			names[1] = "caf\u00e9 \u65e5\u672c.dat"
		case "control-char-name":
			names[1] = "tab\there.dat"
		}
		var paths []string
		for i, n := range names {
			data := scen.GenData(rng, "random", 1+rng.Intn(5*slice), slice)
			if (variant == "empty-file-first" && i == 0) || (variant == "empty-file-last" && i == 2) {
				data = []byte{}
			}
			if err := os.WriteFile(filepath.Join(dir, n), data, 0644); err != nil {
				continue
			}
			in = append(in, par2rw.InFile{Name: n, Data: data})
			paths = append(paths, filepath.Join(dir, n))
		}
		blocks := 1 + rng.Intn(4)
		var cerr error
		if pi := core.Protect(func() {
			cerr = par2.Create(filepath.Join(dir, "ref.par2"), paths, par2.CreateOptions{SliceByteCount: slice, NumParityShards: blocks, NumGoroutines: 1 + rng.Intn(3)})
		}); pi != nil {
			r.Violate("create-panic|"+pi.Frame, "Create with %s: %s", variant, pi.Msg)
			continue
		}
		r.Count("refusable_input_creates", 1)
		r.SetAdd("refusable_input_outcomes", fmt.Sprintf("%s refused=%v", variant, cerr != nil))
		var created []par2rw.CreatedFile
		ents, _ := os.ReadDir(dir)
		for _, de := range ents {
			if strings.HasPrefix(de.Name(), "ref.") {
				b, _ := os.ReadFile(filepath.Join(dir, de.Name()))
				created = append(created, par2rw.CreatedFile{Name: de.Name(), Data: b})
			}
		}
		if cerr == nil {
			problems, _ := par2rw.ValidateCreated(slice, in, blocks, "ref.par2", created, true)
			for i, pr := range problems {
				if i >= 3 {
					break
				}
				r.Violate("nonconformant|"+classify(pr), "Create accepted %s (slice %d, %d blocks) and wrote: %s", variant, slice, blocks, pr)
			}
		} else {
			for _, cf := range created {
				if _, perr := par2rw.ParseStrict(cf.Data); perr != nil {
					r.Violate("nonconformant|packet stream", "Create refused %s (%v) but left %s, which is not a packet stream: %v", variant, cerr, cf.Name, perr)
				}
			}
		}
		r.Key("refusable-input|%s|refused=%v", variant, cerr != nil)
	}
	r.Sample(map[string]interface{}{"kind": "refusable-input", "variants": "latin1-name, utf8-name, empty-file-first, empty-file-last, control-char-name"})
}

// runRecreateChangedTail: files larger than 16 KiB are protected, then edited
// behind their first 16 KiB without changing their length (same names, same
// lengths, same 16k hashes: the same file IDs and recovery set ID) and
// protected again by a second Create in this process. Both sets are judged
// against the contents they were created from.
func (c *c05) runRecreateChangedTail(r *core.R, rng *rand.Rand) {
	root, err := os.MkdirTemp("", "c05re-")
	if err != nil {
		r.Inconclusive("tempdir: %v", err)
		return
	}
	defer os.RemoveAll(root)
	slice := 4 * (250 + rng.Intn(500))
	blocks := 2 + rng.Intn(4)
	var in []par2rw.InFile
	for i := 0; i < 2+rng.Intn(2); i++ {
		in = append(in, par2rw.InFile{Name: fmt.Sprintf("doc%d.bin", i), Data: scen.GenData(rng, "random", 16384+100+rng.Intn(9000), slice)})
	}
	for round := 0; round < 3; round++ {
		dir := filepath.Join(root, fmt.Sprintf("gen%d", round%2)) // the third round re-uses the first directory
		os.MkdirAll(dir, 0755)
		var paths []string
		for _, f := range in {
			os.WriteFile(filepath.Join(dir, f.Name), f.Data, 0644)
			paths = append(paths, filepath.Join(dir, f.Name))
		}
		var cerr error
		if pi := core.Protect(func() {
			cerr = par2.Create(filepath.Join(dir, "docs.par2"), paths, par2.CreateOptions{SliceByteCount: slice, NumParityShards: blocks, NumGoroutines: 1 + rng.Intn(3)})
		}); pi != nil {
			r.Violate("create-panic|"+pi.Frame, "Create, generation %d: %s", round, pi.Msg)
			return
		}
		if cerr != nil {
			r.Violate("create-failed", "generation %d: %v", round, cerr)
			return
		}
		var created []par2rw.CreatedFile
		ents, _ := os.ReadDir(dir)
		for _, de := range ents {
			if strings.HasPrefix(de.Name(), "docs.") {
				b, _ := os.ReadFile(filepath.Join(dir, de.Name()))
				created = append(created, par2rw.CreatedFile{Name: de.Name(), Data: b})
			}
		}
		problems, _ := par2rw.ValidateCreated(slice, in, blocks, "docs.par2", created, true)
		for i, pr := range problems {
			if i >= 3 {
				break
			}
			r.Violate("nonconformant|"+classify(pr), "generation %d (same names, lengths and first 16 KiB as the set created before in this process): %s", round, pr)
		}
		r.Count("recreated_sets", 1)
		// edit the tails for the next generation
		for i := range in {
			d := append([]byte(nil), in[i].Data...)
			for k := 16384 + rng.Intn(50); k < len(d); k += 1 + rng.Intn(40) {
				d[k] ^= byte(1 + rng.Intn(255))
			}
			in[i].Data = d
		}
	}
	r.Key("recreate-changed-tail|%d|%d", slice, blocks)
	r.Sample(map[string]interface{}{"kind": "recreate-changed-tail", "slice": slice, "blocks": blocks, "files": len(in)})
}
