package checks

import (
	"fmt"
	"math/rand"
	"os"
	"path/filepath"

	"github.com/akalin/gopar/par2"

	"verifharness/internal/core"
	"verifharness/internal/scen"
)

// C16 — slices are found at any byte offset.

type c16 struct{ base }

type c16Params struct {
	Seed   int64 `json:"seed"`
	Slice  int   `json:"slice"`
	LenA   int   `json:"len_a"`
	LenB   int   `json:"len_b"`
	Stride int   `json:"stride"` // position stride (1 = every position)
	Repair int   `json:"repair"` // repair every n-th edit
	// Positions, if set, replaces the stride walk by an explicit list.
	Positions []int `json:"positions,omitempty"`
	// Content class of file A ("random" or "crctwins").
	Content string `json:"content,omitempty"`
	// Twin adds a third protected file that stays intact: "copy" = an exact
	// copy of A, "prefix" = A's first slices followed by other content.
	Twin string `json:"twin,omitempty"`
}

func init() {
	register(&c16{base{
		id:          "C16",
		level:       lvlExploration,
		rule:        "each case protects two files of high-entropy content (half of the grids with slices that are CRC-32 twins of their neighbour: equal CRC, different bytes) (A is edited, B is a bystander) with one slice size and walks the complete edit grid on A: insertion and deletion at EVERY position 0..len (stride 1 for the grid slice sizes) x lengths {1,2,3,S-1,S,S+1,2S+1}, plus A's content under B's name, B's under A's and both swapped. After each edit the real par2.Verify must count at least the untouched slices (known by construction from the segment model and cross-checked against the closed formula for touched slices) and at most the slices a brute-force finder locates; every n-th edit is also repaired with exactly max(t,1) recovery blocks left. An edit whose random content accidentally contains a duplicate window that makes an independent skip-on-hit scan miss a witness is counted as coincidence, not judged. A key is (slice size, file length, edit kind, position, length). Half of the random grids also protect an intact third file (a copy of A or A's leading slices): the lower bound is the witness set closed under equal slice content. Further edits per grid: CRC-32-preserving 6-byte overwrites, inserted CRC twins of whole slices, bytes in front of a file shorter than a slice, pairs of compensating cut/insert edits of equal length. Every third edit that touches no slice is repaired with all recovery files removed (double check alternating).",
		assumptions: append([]string{"content is random, so slices are unique up to accidental 4-byte coincidences, which are detected with the brute-force match table and set aside"}, commonAssumptions...),
		opts:        core.WorkerOpts{CrashIsViolation: true, WallSeconds: 2400, Exhaustive: true, Extra: map[string]interface{}{"exhaustive_subspace": "for each listed (slice size, file length) with stride 1: every edit position 0..len x the listed lengths, insertions and deletions"}},
	}})
}

func (c *c16) Cases(tier string, seed int64) []core.Case {
	var cs []core.Case
	r := core.Rng("C16", tier, seed)
	grid := []int{4, 8, 12, 16, 20, 64, 100}
	for _, s := range grid {
		for _, mult := range []bool{true, false} {
			n := s * (3 + r.Intn(3))
			if !mult {
				n += 1 + r.Intn(s-1)
			}
			if s <= 8 {
				n = s*(6+r.Intn(6)) + map[bool]int{true: 0, false: 1 + r.Intn(s-1)}[mult]
			}
			rep := 4
			if tier == "thorough" {
				rep = 1
			}
			content := "random"
			if s >= 8 && !mult {
				// distinct slices that share their CRC-32 with a neighbour
				content = "crctwins"
			}
			twin := ""
			if content == "random" && s >= 8 {
				twin = []string{"copy", "prefix"}[(s/4)%2]
			}
			cs = append(cs, core.MkCase(fmt.Sprintf("grid-s%d-n%d-%s%s", s, n, content, twin), c16Params{Seed: r.Int63(), Slice: s, LenA: n, LenB: s + 1 + r.Intn(2*s), Stride: 1, Repair: rep, Content: content, Twin: twin}))
		}
	}
	// files larger than 16 KiB (the first-16-KiB hash boundary): edits around
	// offset 16384 and in the tail
	for _, s := range []int{100, 2000, 4096} {
		n := 16384 + 3*s + 1 + r.Intn(s)
		var pos []int
		for _, base := range []int{0, s, 16384 - s, 16384, 16384 + s, n - s, n} {
			for d := -1; d <= 1; d++ {
				if base+d >= 0 && base+d <= n {
					pos = append(pos, base+d)
				}
			}
		}
		for k := 0; k < 6; k++ {
			pos = append(pos, 16384+r.Intn(n-16384))
		}
		for q := (16384/s + 1) * s; q <= n; q += s {
			pos = append(pos, q)
		}
		cs = append(cs, core.MkCase(fmt.Sprintf("bigfile-s%d-n%d", s, n), c16Params{Seed: r.Int63(), Slice: s, LenA: n, LenB: s + 1 + r.Intn(s), Stride: 1, Repair: 3, Positions: pos}))
	}
	// other slice sizes: structured and seeded, sampled positions
	extra := []int{24, 28, 32, 36, 128, 252, 256, 260, 508, 512, 516, 1020, 1024, 1028, 2000, 2048, 2052}
	nr := 6
	if tier == "thorough" {
		nr = 100
	}
	for i := 0; i < nr; i++ {
		extra = append(extra, 4*(1+r.Intn(600)))
	}
	for _, s := range extra {
		n := s*(2+r.Intn(2)) + r.Intn(s)
		stride := 1 + n/60
		if tier == "thorough" {
			stride = 1 + n/400
		}
		cs = append(cs, core.MkCase(fmt.Sprintf("sampled-s%d-n%d", s, n), c16Params{Seed: r.Int63(), Slice: s, LenA: n, LenB: s/2 + 1 + r.Intn(s), Stride: stride, Repair: 5}))
	}
	return cs
}

// touchedByFormula implements the closed form stated in DESIGN.md.
func touchedByFormula(kind string, n, s, p, l int) map[int]bool {
	t := map[int]bool{}
	nsl := (n + s - 1) / s
	switch kind {
	case "cut":
		if l <= 0 || p >= n {
			return t
		}
		if p+l > n {
			l = n - p
		}
		for i := p / s; i <= (p+l-1)/s; i++ {
			t[i] = true
		}
	case "insert":
		if p < n {
			if p%s != 0 {
				t[p/s] = true
			}
		} else if n%s != 0 {
			t[nsl-1] = true
		}
	}
	return t
}

func (c *c16) Run(cs core.Case) core.Result {
	var p c16Params
	core.Decode(cs, &p)
	r := core.NewR(cs)
	rng := rand.New(rand.NewSource(p.Seed))
	s := p.Slice
	set := scen.Set{SliceSize: s, Blocks: 7, Content: "random", Files: []scen.File{
		{Name: "A.bin", Data: scen.GenData(rng, map[bool]string{true: p.Content, false: "random"}[p.Content != ""], p.LenA, s)},
		{Name: "sub/B.bin", Data: scen.GenData(rng, "random", p.LenB, s)},
	}}
	switch p.Twin {
	case "copy":
		set.Files = append(set.Files, scen.File{Name: "copy of A.bin", Data: append([]byte(nil), set.Files[0].Data...)})
	case "prefix":
		k := ((p.LenA / s) + 1) / 2 * s
		set.Files = append(set.Files, scen.File{Name: "same header.bin", Data: append(append([]byte(nil), set.Files[0].Data[:k]...), scen.GenData(rng, "random", s+1+rng.Intn(s), s)...)})
	}
	// a protected file shorter than one slice (its only slice is padded)
	tiny := -1
	if s >= 8 {
		tiny = len(set.Files)
		set.Files = append(set.Files, scen.File{Name: "tiny.bin", Data: scen.GenData(rng, "random", 2+rng.Intn(s/2), s)})
	}
	// History: the same process first scans a damaged set with a DIFFERENT
	// slice size, so any state that survives between operations (cached
	// tables, pools) would be exercised.
	{
		aux := scen.Set{SliceSize: []int{4, 8, 36, 1024}[rng.Intn(4)], Blocks: 2, Content: "random"}
		if aux.SliceSize == s {
			aux.SliceSize = s + 4
		}
		aux.Files = []scen.File{{Name: "aux.bin", Data: scen.GenData(rng, "random", 5*aux.SliceSize+3, aux.SliceSize)}}
		if auxEnv, err := newP2Env(aux, "aux", 2); err == nil {
			auxEnv.st.Apply(scen.Op{Kind: "insert", A: 0, Pos: aux.SliceSize + 1, G: scen.Garbage(rng, 3)})
			auxEnv.sync()
			var vr par2.VerifyResult
			if pi := core.Protect(func() { vr, err = par2.Verify(auxEnv.idx, par2.VerifyOptions{NumGoroutines: 1}) }); pi == nil && err == nil {
				if w := len(auxEnv.st.Witnessed()); vr.ShardCounts.UsableDataShardCount < w {
					r.Violate("untouched-slice-not-found", "warm-up set (slice size %d): %d witnessed, %d usable", aux.SliceSize, w, vr.ShardCounts.UsableDataShardCount)
				}
			}
			auxEnv.close()
		} else if auxEnv != nil {
			auxEnv.close()
		}
	}
	env, err := newP2Env(set, "e", 1+rng.Intn(4))
	if env != nil {
		defer env.close()
	}
	if err != nil {
		r.Violate("create-failed", "%v", err)
		return r.Done()
	}
	// keep the volume files in memory: name -> (bytes, block count)
	type vol struct {
		path string
		data []byte
		n    int
	}
	var vols []vol
	for _, v := range env.volumeFiles() {
		b, _ := os.ReadFile(v)
		vols = append(vols, vol{v, b, volBlocks(v)})
	}
	setBlocks := func(want int) bool {
		rem := want
		for i := len(vols) - 1; i >= 0; i-- {
			if vols[i].n <= rem {
				rem -= vols[i].n
				os.WriteFile(vols[i].path, vols[i].data, 0644)
			} else {
				os.Remove(vols[i].path)
			}
		}
		return rem == 0
	}
	total := set.TotalSlices()
	nA := (p.LenA + s - 1) / s
	lens := []int{1, 2, 3, s - 1, s, s + 1, 2*s + 1}
	editNo := 0
	judge := func(kind string, pos, l int, ops []scen.Op, formula map[int]bool) {
		editNo++
		st := scen.NewState(set)
		for _, op := range ops {
			st.Apply(op)
		}
		env.st = st
		env.sync()
		wit := st.Witnessed()
		byContent := st.WitnessedByContent()
		if formula != nil {
			// cross-check the model against the closed formula (file A only)
			for i := 0; i < nA; i++ {
				if wit[scen.SliceRef{F: 0, I: i}] == formula[i] {
					r.Violate("harness-model-error", "%s pos=%d len=%d S=%d n=%d: slice %d witness=%v but formula says touched=%v", kind, pos, l, s, p.LenA, i, wit[scen.SliceRef{F: 0, I: i}], formula[i])
					return
				}
			}
		}
		// identical slices elsewhere (the intact twin file) keep a touched slice alive
		wit = byContent
		findable, skip := st.Find()
		coincidence := false
		for w := range wit {
			if !skip[w] {
				coincidence = true
			}
		}
		if coincidence {
			r.Count("coincidental_duplicate_windows", 1)
			return
		}
		setBlocks(7)
		desc := fmt.Sprintf("S=%d lenA=%d lenB=%d %s pos=%d len=%d", s, p.LenA, p.LenB, kind, pos, l)
		core.Note("C16 %s", desc)
		var res par2.VerifyResult
		var verr error
		if pi := core.Protect(func() { res, verr = par2.Verify(env.idx, par2.VerifyOptions{NumGoroutines: 2}) }); pi != nil {
			r.Violate(core.CrashSig("par2.Verify", pi.Frame, pi.Msg), "%s: Verify panicked: %s", desc, pi.Msg)
			return
		}
		if verr != nil {
			r.Violate("verify-error", "%s: %v", desc, verr)
			return
		}
		usable := res.ShardCounts.UsableDataShardCount
		r.Count("edits_verified", 1)
		if usable < len(wit) {
			r.Violate("untouched-slice-not-found", "%s: %d of %d slices are untouched by the edit and still contiguous, Verify counts only %d usable (brute-force findable %d, independent skip-on-hit scan %d)", desc, len(wit), total, usable, len(findable), len(skip))
		}
		if usable > len(findable) {
			r.Violate("usable-exceeds-findable", "%s: Verify counts %d usable, only %d findable", desc, usable, len(findable))
		}
		r.Key("s=%d|n=%d|%s|%d|%d", s, p.LenA, kind, pos, l)
		if total == len(wit) && editNo%3 == 0 {
			// nothing is lost: the files can be put back without any recovery
			// block, with the double check on or off
			setBlocks(0)
			var rerr error
			if pi := core.Protect(func() {
				_, rerr = par2.Repair(env.idx, par2.RepairOptions{NumGoroutines: 2, DoubleCheck: editNo%2 == 1})
			}); pi != nil {
				r.Violate(core.CrashSig("par2.Repair", pi.Frame, pi.Msg), "%s: Repair without recovery files (no slice lost) panicked: %s", desc, pi.Msg)
				return
			}
			r.Count("edits_repaired_without_recovery_files", 1)
			if rerr != nil {
				r.Violate("repair-needs-more-than-touched-slices", "%s: no slice is touched, yet Repair without recovery files fails: %v", desc, rerr)
			} else if w := env.wrongFiles(); len(w) > 0 {
				r.Violate("repair-nil-but-files-differ", "%s: %v", desc, w)
			}
			return
		}
		if p.Repair > 0 && editNo%p.Repair == 0 {
			t := total - len(wit)
			want := t
			if want < 1 {
				want = 1
			}
			if !setBlocks(want) {
				return
			}
			exps := env.availableExponents()
			var rerr error
			if pi := core.Protect(func() {
				_, rerr = par2.Repair(env.idx, par2.RepairOptions{NumGoroutines: 3, DoubleCheck: editNo%2 == 0})
			}); pi != nil {
				r.Violate(core.CrashSig("par2.Repair", pi.Frame, pi.Msg), "%s: Repair panicked: %s", desc, pi.Msg)
				return
			}
			r.Count("edits_repaired_with_exactly_t_blocks", 1)
			if rerr != nil {
				mE := missingOf(st.AllSlices(), skip, env.order)
				if env.forcedSingular(mE, exps) {
					r.Count("singular_forced_systems", 1)
				} else {
					r.Violate("repair-needs-more-than-touched-slices", "%s: %d slices touched, exactly %d recovery blocks present (%v), Repair failed: %v", desc, t, len(exps), exps, rerr)
				}
			} else if w := env.wrongFiles(); len(w) > 0 {
				r.Violate("repair-nil-but-files-differ", "%s: %v", desc, w)
			}
		}
	}
	var positions []int
	if p.Positions != nil {
		positions = p.Positions
	} else {
		for pos := 0; pos <= p.LenA; pos += p.Stride {
			positions = append(positions, pos)
		}
	}
	for _, pos := range positions {
		for _, l := range lens {
			if l <= 0 {
				continue
			}
			g := scen.Garbage(rng, l)
			judge("insert", pos, l, []scen.Op{{Kind: "insert", A: 0, Pos: pos, G: g}}, touchedByFormula("insert", p.LenA, s, pos, l))
			if pos < p.LenA {
				judge("cut", pos, l, []scen.Op{{Kind: "cut", A: 0, Pos: pos, Len: l}}, touchedByFormula("cut", p.LenA, s, pos, l))
			}
			if len(r.Done().More) > 6 {
				goto out
			}
		}
	}
	// damage and insertions whose windows have the CRC-32 of a protected slice
	// but not its bytes (the scanner's cheap test passes, the MD5 does not)
	if s >= 8 {
		dataA := set.Files[0].Data
		for k := 0; k < 12; k++ {
			if p.LenA < 6 {
				break
			}
			pos := rng.Intn(p.LenA - 5)
			if k < 4 {
				pos = (pos / s) * s // first bytes of a slice
			}
			pat := scen.CRCPreservingPattern(rng.Intn(8))
			g := make([]byte, 6)
			for i := range g {
				g[i] = dataA[pos+i] ^ pat[i]
			}
			judge("crc-preserving-overwrite", pos, 6, []scen.Op{{Kind: "overwrite", A: 0, Pos: pos, G: g}}, nil)
		}
		for k := 0; k < 12; k++ {
			// a whole window = some full slice of A xor the pattern, inserted at pos
			j := rng.Intn(p.LenA / s)
			g := append([]byte(nil), dataA[j*s:(j+1)*s]...)
			pat := scen.CRCPreservingPattern(rng.Intn(8))
			off := rng.Intn(s - 5)
			for i := range pat {
				g[off+i] ^= pat[i]
			}
			pos := rng.Intn(p.LenA + 1)
			if k%2 == 0 {
				pos = (pos / s) * s
			}
			judge("insert-crc-twin-of-slice", pos, s, []scen.Op{{Kind: "insert", A: 0, Pos: pos, G: g}}, touchedByFormula("insert", p.LenA, s, pos, s))
		}
	}
	// bytes put in front of a file that is shorter than a slice (it stays
	// within one slice or grows beyond it)
	if tiny >= 0 {
		lt := len(set.Files[tiny].Data)
		for _, k := range []int{1, 2, 3, s - lt - 1, s - lt, s - lt + 1, s, s + 1} {
			if k > 0 {
				judge("tiny-file-shifted", 0, k, []scen.Op{{Kind: "insert", A: tiny, Pos: 0, G: scen.Garbage(rng, k)}}, nil)
			}
		}
	}
	// two edits that compensate each other: the length stays what it was, the
	// slices between the edits are shifted
	for k := 0; k < 16 && p.LenA > 3*s; k++ {
		l := []int{1, 2, 3, s - 1, s, s + 1}[rng.Intn(6)]
		p1 := rng.Intn(s)
		if k%4 == 0 {
			p1 = 0
		}
		if p1+l >= p.LenA-s {
			continue
		}
		rest := p.LenA - l
		p2 := p1 + s + rng.Intn(rest-p1-s+1)
		if k%2 == 0 {
			p2 = rest // filled up at the end
		}
		judge("cut-then-insert-same-length", p1, l, []scen.Op{{Kind: "cut", A: 0, Pos: p1, Len: l}, {Kind: "insert", A: 0, Pos: p2, G: scen.Garbage(rng, l)}}, nil)
		judge("insert-then-cut-same-length", p1, l, []scen.Op{{Kind: "insert", A: 0, Pos: p1, G: scen.Garbage(rng, l)}, {Kind: "cut", A: 0, Pos: minInt(p2+l, p.LenA), Len: l}}, nil)
	}
	// content under another protected name
	judge("B-content-appended-to-A", 0, 0, []scen.Op{{Kind: "append", A: 0, G: set.Files[1].Data}}, nil)
	judge("A-under-B", 0, 0, []scen.Op{{Kind: "copy", A: 0, B: 1}}, nil)
	judge("B-under-A", 0, 0, []scen.Op{{Kind: "copy", A: 1, B: 0}}, nil)
	judge("swap", 0, 0, []scen.Op{{Kind: "swap", A: 0, B: 1}}, nil)
	judge("A-deleted-B-has-A", 0, 0, []scen.Op{{Kind: "copy", A: 0, B: 1}, {Kind: "delete", A: 0}}, nil)
out:
	r.Sample(map[string]interface{}{"slice": s, "len_a": p.LenA, "len_b": p.LenB, "stride": p.Stride, "edits": editNo, "lengths": lens, "dir": filepath.Base(env.dir)})
	return r.Done()
}
