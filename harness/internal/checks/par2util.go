package checks

import (
	"crypto/md5"
	"fmt"
	"math/rand"
	"os"
	"path/filepath"
	"sort"
	"strings"

	"github.com/akalin/gopar/par2"

	"verifharness/internal/core"
	"verifharness/internal/ref/gf16"
	"verifharness/internal/ref/par2rw"
	"verifharness/internal/scen"
)

var p2SliceSizes = []int{4, 8, 12, 16, 20, 24, 28, 32, 36, 40, 48, 64, 100, 512, 2000, 4096}

// genP2Set draws a PAR2 file set.
func genP2Set(rng *rand.Rand, maxFiles int, contents []string, allowBig bool) scen.Set {
	slice := p2SliceSizes[rng.Intn(len(p2SliceSizes))]
	switch rng.Intn(7) {
	case 6:
		// slices longer than 4 KiB and not a multiple of it (few of them)
		slice = []int{5000, 8196, 12000, 4100, 16388}[rng.Intn(5)]
	case 0, 1:
		slice = []int{4, 8, 16, 64}[rng.Intn(4)]
	case 2:
		// any multiple of 4 up to ~2 KiB, incl. 4+k*512 and 2^n+-4
		slice = 4 * (1 + rng.Intn(530))
		if rng.Intn(3) == 0 {
			slice = []int{516, 1028, 2052, 508, 1020, 260, 252, 1024, 2048, 132}[rng.Intn(10)]
		}
	}
	nf := 1 + rng.Intn(maxFiles)
	if rng.Intn(4) == 0 {
		nf = 1 + rng.Intn(3)
	}
	if maxFiles >= 6 && rng.Intn(12) == 0 {
		// many small files: file IDs that agree in some bytes become likely
		nf = 40 + rng.Intn(30)
	}
	content := contents[rng.Intn(len(contents))]
	set := scen.Set{SliceSize: slice, Content: content}
	set.Blocks = []int{1, 2, 3, 4, 5, 6, 7, 8, 9, 10, 11, 12, 33}[rng.Intn(13)]
	budget := 60000
	for i := 0; i < nf; i++ {
		n := scen.SizeAround(rng, slice, allowBig && slice >= 64)
		if slice > 4096 && n > 3*slice {
			n = 2*slice + rng.Intn(slice)
		}
		if nf >= 40 {
			n = 1 + rng.Intn(2*slice)
		}
		if slice >= 512 && n > 8*slice {
			n = 8 * slice
		}
		if n > budget {
			n = 1 + rng.Intn(slice)
		}
		budget -= n
		kind := content
		if content == "mixed" {
			kind = []string{"random", "zeros", "period", "mixed"}[rng.Intn(4)]
		}
		set.Files = append(set.Files, scen.File{Name: scen.GenName(rng, i, true, true), Data: scen.GenData(rng, kind, n, slice)})
	}
	return set
}

// p2SymlinkInputs makes newP2Env turn half of the inputs into symlinks.
var p2SymlinkInputs bool

// p2PreCreate, if set, runs on the materialised directory before the Create
// under test (used to leave an older archive behind).
var p2PreCreate func(dir, idx string, paths []string)

// p2env is a protected set on a real directory plus its damage model.
type p2env struct {
	root  string
	dir   string
	idx   string
	set   scen.Set
	st    *scen.State
	paths []string
	ref   *par2rw.RefSet
	// global index (recovery order) of each slice
	order map[scen.SliceRef]int
}

func (e *p2env) close() { os.RemoveAll(e.root) }

// envDirName is the name of the directory a set lives in: every fourth one
// contains a '%' (paths end up in format strings easily).
func envDirName() string {
	envDirCounter++
	if envDirCounter%4 == 0 {
		return "50% set"
	}
	return "set"
}

var envDirCounter int

// p2CreatePaths, if set, rewrites the list of input paths handed to Create
// (repeats, other spellings); the set itself stays what it is.
var p2CreatePaths func(dir string, paths []string) []string

// p2CreateHook, if set, writes the set instead of par2.Create (same contract).
var p2CreateHook func(idx string, paths []string, slice, blocks, g int) (error, *core.PanicInfo)

// newP2Env materialises the set and runs the real par2.Create.
func newP2Env(set scen.Set, base string, g int) (*p2env, error) {
	root, err := os.MkdirTemp("", "p2-")
	if err != nil {
		return nil, err
	}
	e := &p2env{root: root, dir: filepath.Join(root, envDirName()), set: set, st: scen.NewState(set)}
	e.idx = filepath.Join(e.dir, base+".par2")
	e.paths, err = set.Materialize(e.dir)
	if err != nil {
		return e, err
	}
	if p2SymlinkInputs {
		// every other input becomes a symbolic link to the real file kept
		// outside the set directory; Create must protect the file's content
		for i, p := range e.paths {
			if i%2 == 0 {
				real := filepath.Join(root, fmt.Sprintf("real-%d", i))
				if os.Rename(p, real) == nil {
					os.Symlink(real, p)
				}
			}
		}
	}
	if p2PreCreate != nil {
		p2PreCreate(e.dir, e.idx, e.paths)
	}
	createPaths := e.paths
	if p2CreatePaths != nil {
		createPaths = p2CreatePaths(e.dir, e.paths)
	}
	var cerr error
	if p2CreateHook != nil {
		// the set is written through a history on one Encoder object
		var hpi *core.PanicInfo
		cerr, hpi = p2CreateHook(e.idx, createPaths, set.SliceSize, set.Blocks, g)
		if hpi != nil {
			return e, fmt.Errorf("Create panicked: %s [%s]", hpi.Msg, hpi.Frame)
		}
	} else if pi := core.Protect(func() {
		cerr = par2.Create(e.idx, createPaths, par2.CreateOptions{SliceByteCount: set.SliceSize, NumParityShards: set.Blocks, NumGoroutines: g})
	}); pi != nil {
		return e, fmt.Errorf("Create panicked: %s [%s]", pi.Msg, pi.Frame)
	}
	if cerr != nil {
		return e, fmt.Errorf("Create: %w", cerr)
	}
	var in []par2rw.InFile
	for _, f := range set.Files {
		in = append(in, par2rw.InFile{Name: f.Name, Data: f.Data})
	}
	e.ref = par2rw.BuildSet(set.SliceSize, in)
	e.order = map[scen.SliceRef]int{}
	k := 0
	for _, rf := range e.ref.Files {
		fi := -1
		for i, f := range set.Files {
			if f.Name == rf.Name {
				fi = i
			}
		}
		for i := range rf.Slices {
			e.order[scen.SliceRef{F: fi, I: i}] = k
			k++
		}
	}
	// Create's postcondition as far as the scenarios depend on it: the index
	// exists and recovery blocks 0..n-1 are stored beside it in files named
	// <base>.*.par2 (C05 judges the bytes)
	if _, err := os.Stat(e.idx); err != nil {
		return e, fmt.Errorf("Create returned nil but wrote no index file %q", filepath.Base(e.idx))
	}
	if got := e.availableExponents(); len(got) != set.Blocks {
		var have []string
		if des, derr := os.ReadDir(e.dir); derr == nil {
			for _, de := range des {
				have = append(have, de.Name())
			}
		}
		return e, fmt.Errorf("Create returned nil but the recovery files beside %q hold blocks %v, %d were requested (directory holds %q)", filepath.Base(e.idx), head16(got), set.Blocks, have)
	}
	return e, nil
}

// sync writes the model state of every protected file to disk.
func (e *p2env) sync() {
	for i, c := range e.st.Cur {
		p := e.paths[i]
		if !c.Present {
			os.Remove(p)
			// a deleted file takes its emptied sub-directories with it (as
			// `rm -r sub/` would): Repair has to cope with that
			for d := filepath.Dir(p); d != e.dir && len(d) > len(e.dir); d = filepath.Dir(d) {
				if os.Remove(d) != nil {
					break
				}
			}
			continue
		}
		os.MkdirAll(filepath.Dir(p), 0755)
		os.WriteFile(p, e.st.Bytes(i), 0644)
	}
}

// volumeFiles lists the recovery files currently beside the index.
func (e *p2env) volumeFiles() []string {
	ents, _ := os.ReadDir(e.dir)
	base := strings.TrimSuffix(filepath.Base(e.idx), ".par2")
	var v []string
	for _, en := range ents {
		n := en.Name()
		if strings.Contains(n, ".0sib.") {
			// the neighbouring set the scenarios of C01/C03 put beside this one
			continue
		}
		if strings.HasPrefix(n, base+".") && strings.HasSuffix(n, ".par2") && n != base+".par2" {
			v = append(v, filepath.Join(e.dir, n))
		}
	}
	sort.Strings(v)
	return v
}

// availableExponents reads the recovery files with the reference
// reader and returns the sorted distinct exponents of intact recovery
// packets of this set.
func (e *p2env) availableExponents() []int {
	seen := map[int]bool{}
	for _, v := range e.volumeFiles() {
		b, err := os.ReadFile(v)
		if err != nil {
			continue
		}
		for _, p := range par2rw.ParseLenient(b) {
			if p.Type == par2rw.TypeRecv && p.SetID == e.ref.SetID {
				// a block of this set has exactly the slice size
				if rv, err := par2rw.DecodeRecv(p.Body); err == nil && rv.Exp < 65536 && (e.set.SliceSize == 0 || len(rv.Data) == e.set.SliceSize) {
					seen[int(rv.Exp)] = true
				}
			}
		}
	}
	var out []int
	for x := range seen {
		out = append(out, x)
	}
	sort.Ints(out)
	return out
}

// forcedSingular reports whether the system the format forces
// (lowest-numbered |missing| available exponents x missing slices) is
// singular by the reference arithmetic.
func (e *p2env) forcedSingular(missing []scen.SliceRef, exps []int) bool {
	k := len(missing)
	if k == 0 || k > len(exps) {
		return false
	}
	m := gf16.NewMatrix(k, k)
	for i := 0; i < k; i++ {
		for j, sl := range missing {
			m.Set(i, j, gf16.Pow(e.ref.Const(e.order[sl]), uint64(exps[i])))
		}
	}
	return m.Singular()
}

// filesIdentical lists protected files that are absent or differ.
func (e *p2env) wrongFiles() []string {
	var bad []string
	for i, f := range e.set.Files {
		b, err := os.ReadFile(e.paths[i])
		if err != nil {
			bad = append(bad, f.Name+" (missing)")
		} else if string(b) != string(f.Data) {
			bad = append(bad, fmt.Sprintf("%s (%d bytes, original %d)", f.Name, len(b), len(f.Data)))
		}
	}
	return bad
}

func setSummary(set scen.Set) map[string]interface{} {
	var sizes []int
	var names []string
	for _, f := range set.Files {
		sizes = append(sizes, len(f.Data))
		names = append(names, f.Name)
	}
	if len(names) > 6 {
		names = names[:6]
	}
	return map[string]interface{}{"slice": set.SliceSize, "blocks": set.Blocks, "content": set.Content, "sizes": sizes, "names": names, "slices": set.TotalSlices()}
}

func md5Of(b []byte) [16]byte { return md5.Sum(b) }
