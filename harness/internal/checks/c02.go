package checks

import (
	"fmt"
	"math/rand"
	"os"
	"path/filepath"
	"sort"
	"strings"

	"github.com/akalin/gopar/par1"
	"github.com/akalin/gopar/par2"

	"verifharness/internal/core"
	"verifharness/internal/mon"
	"verifharness/internal/ref/par1rw"
	"verifharness/internal/ref/par2rw"
	"verifharness/internal/scen"
)

// C02 — Repair writes only exact originals; nothing else is modified.

type c02 struct{ base }

type c02Params struct {
	Seed   int64  `json:"seed"`
	Fmt    string `json:"fmt"`
	Kind   string `json:"kind"`
	Strace bool   `json:"strace"`
}

func init() {
	register(&c02{base{
		id:          "C02",
		level:       lvlExploration,
		rule:        "each case builds a PAR1 or PAR2 archive state WITHOUT a capacity filter (damage within and beyond capacity, partially repairable sets, deleted/garbled/foreign recovery files, recovery payload altered and re-checksummed so that only the file-hash check can stop wrong bytes, bystander files and sub-directories incl. names matching <base>.*.par2) and runs Create, Verify and Repair (double-check on and off) through a recording file-system seam over the real directory (in-process layer) and, for every fifth case, the built par binary under strace (process layer). Offline checker over (event log, before/after snapshots, result, originals): every write/create/unlink/rename event must target a protected file of the set; the bytes of every written file must equal the protected bytes; written paths = RepairedPaths; every other file is byte-identical; Verify issues no mutating event; Create leaves its inputs unchanged. A key is (format, state kind, outcome, layer). Kinds altered-mixed (shifted files plus one that spoilt recovery data cannot rebuild: everything written must be listed) and recreate-after-edit (in-place edit behind the first 16 KiB, Create again with the same options, then Repair of another file).. A fifth of the PAR1 cases use 200-211 volumes with RAR-like input names (<base>.r00 ...); pinned kind input-named-like-output (an input named like the index or a recovery file about to be written: Create must not touch it - witness of defect V).. Case twins of deleted files as bystanders; half of the strace repairs name the index twice and compare the command's Repaired-files line with the files it wrote.",
		assumptions: append([]string{"strace's view is complete for the traced syscall set (gopar has no mmap writes)"}, commonAssumptions...),
		opts:        core.WorkerOpts{CrashIsViolation: false, WallSeconds: 2400},
	}})
}

var c02Kinds = []string{"general", "general", "beyond-capacity", "altered-recovery", "foreign-volume", "garbled-volume", "bystanders-matching", "intact", "big-altered", "altered-mixed", "recreate-after-edit"}

func (c *c02) Cases(tier string, seed int64) []core.Case {
	var cs []core.Case
	r := core.Rng("C02", tier, seed)
	n := map[string]int{"quick": 360, "thorough": 25000}[tier]
	for i := 0; i < n; i++ {
		f := "par2"
		if r.Intn(3) == 2 {
			f = "par1"
		}
		k := c02Kinds[r.Intn(len(c02Kinds))]
		cs = append(cs, core.MkCase(fmt.Sprintf("%s-%s-%d", f, k, i), c02Params{r.Int63(), f, k, r.Intn(5) == 0}))
	}
	for i := 0; i < map[string]int{"quick": 2, "thorough": 20}[tier]; i++ {
		for _, f := range []string{"par2", "par1"} {
			cs = append(cs, core.MkCase(fmt.Sprintf("%s-input-named-like-output-%d", f, i), c02Params{r.Int63(), f, "input-named-like-output", false}))
		}
	}
	return cs
}

// addBystanders drops unrelated files around the set and returns nothing;
// they are part of the before/after snapshot.
func addBystanders(rng *rand.Rand, dir, base string, matching bool) {
	os.WriteFile(filepath.Join(dir, "README.txt"), scen.Garbage(rng, 40), 0644)
	os.MkdirAll(filepath.Join(dir, "other dir", "deep"), 0755)
	os.WriteFile(filepath.Join(dir, "other dir", "deep", "x.bin"), scen.Garbage(rng, 100), 0644)
	os.WriteFile(filepath.Join(dir, base+".txt"), scen.Garbage(rng, 10), 0644)
	os.WriteFile(filepath.Join(dir, base+".par2.bak"), scen.Garbage(rng, 10), 0644)
	os.WriteFile(filepath.Join(filepath.Dir(dir), "outside.txt"), scen.Garbage(rng, 33), 0644)
	if matching {
		os.WriteFile(filepath.Join(dir, base+".notes.par2"), scen.Garbage(rng, 70), 0644)
		os.WriteFile(filepath.Join(dir, base+".p77"), scen.Garbage(rng, 70), 0644)
	}
}

// runInputNamedLikeOutput is the pinned witness of defect V: one of the
// inputs has the name of a file Create is about to write (the index or a
// recovery file - what "par c set.par *" meets when it is run a second
// time). Create must not touch it: it refuses, or it leaves the input as it
// is.
func (c *c02) runInputNamedLikeOutput(r *core.R, p c02Params, rng *rand.Rand) {
	for _, which := range []string{"first-volume", "later-volume", "index"} {
		root, err := os.MkdirTemp("", "c02v-")
		if err != nil {
			r.Inconclusive("tempdir: %v", err)
			return
		}
		dir := filepath.Join(root, "set")
		os.MkdirAll(dir, 0755)
		base := []string{"set", "my%20set", "a.b"}[rng.Intn(3)]
		var squat string
		nblocks := 3 + rng.Intn(3)
		if p.Fmt == "par2" {
			squat = map[string]string{"first-volume": base + ".vol00+01.par2", "later-volume": base + ".vol01+02.par2", "index": base + ".par2"}[which]
		} else {
			squat = map[string]string{"first-volume": base + ".p01", "later-volume": fmt.Sprintf("%s.p%02d", base, nblocks), "index": base + ".par"}[which]
		}
		names := []string{"one.bin", squat, "two.bin"}
		var paths []string
		orig := map[string][]byte{}
		for _, n := range names {
			b := scen.GenData(rng, "random", 30+rng.Intn(200), 16)
			os.WriteFile(filepath.Join(dir, n), b, 0644)
			paths = append(paths, filepath.Join(dir, n))
			orig[n] = b
		}
		before := scen.Snapshot(root)
		var cerr error
		pi := core.Protect(func() {
			if p.Fmt == "par2" {
				cerr = par2.Create(filepath.Join(dir, base+".par2"), paths, par2.CreateOptions{SliceByteCount: 16, NumParityShards: nblocks, NumGoroutines: 2})
			} else {
				cerr = par1.Create(filepath.Join(dir, base+".par"), paths, par1.CreateOptions{NumParityFiles: nblocks})
			}
		})
		desc := fmt.Sprintf("%s Create with an input named %q (the %s it is about to write)", p.Fmt, squat, which)
		if pi != nil {
			r.Violate(core.CrashSig(p.Fmt+".Create", pi.Frame, pi.Msg), "%s: panic %s", desc, pi.Msg)
		}
		for _, n := range names {
			if b, err := os.ReadFile(filepath.Join(dir, n)); err != nil || string(b) != string(orig[n]) {
				r.Violate("create-wrote-to-input", "%s: returned %v and the input %q no longer holds its bytes", desc, cerr, n)
			}
		}
		if cerr != nil {
			r.Count("create_refused_to_overwrite_input", 1)
			if d := scen.DiffSnap(before, scen.Snapshot(root)); len(d) > 0 {
				r.Violate("create-changed-existing-file", "%s: refused (%v) but changed %v", desc, cerr, d)
			}
		}
		r.Key("input-named-like-output|%s|%s|%v", p.Fmt, which, cerr != nil)
		os.RemoveAll(root)
	}
	r.Sample(map[string]interface{}{"kind": "input-named-like-output", "format": p.Fmt})
}

func (c *c02) Run(cs core.Case) core.Result {
	var p c02Params
	core.Decode(cs, &p)
	r := core.NewR(cs)
	rng := rand.New(rand.NewSource(p.Seed))
	if p.Kind == "input-named-like-output" {
		c.runInputNamedLikeOutput(r, p, rng)
		return r.Done()
	}
	if p.Fmt == "par2" {
		c.runPar2(r, p, rng)
	} else {
		c.runPar1(r, p, rng)
	}
	return r.Done()
}

// judgeRun is the offline checker shared by both formats and layers.
type c02Run struct {
	op        string
	layer     string
	protected map[string][]byte // abs path -> original bytes
	root      string            // snapshot root (parent of set dir)
	before    map[string]string
	after     map[string]string
	writes    []string // paths with mutating events
	writeSums map[string]string
	completed map[string]bool // paths whose write call returned nil (seam layer)
	repaired  []string
	haveRes   bool
	err       error
	desc      string
}

func (c *c02) judge(r *core.R, run c02Run) {
	sig := func(s string) string { return s + "|" + run.op }
	// Directories on the way to a protected file may be (re)created by Repair.
	isAncestorOfProtected := func(dir string) bool {
		for pp := range run.protected {
			if strings.HasPrefix(pp, dir+string(filepath.Separator)) {
				return true
			}
		}
		return false
	}
	wrote := map[string]bool{}
	for _, w := range run.writes {
		w = filepath.Clean(w)
		if run.op == "repair" && isAncestorOfProtected(w) {
			r.Count("directories_recreated", 1)
			continue
		}
		wrote[w] = true
		if _, ok := run.protected[w]; !ok {
			r.Violate(sig("write-to-non-protected-path"), "%s [%s]: mutating event on %q, which is not a protected file of the set; %s", run.op, run.layer, w, run.desc)
		}
		if run.op != "repair" {
			r.Violate(sig("mutating-event-outside-repair"), "%s [%s]: mutating event on %q; %s", run.op, run.layer, w, run.desc)
		}
	}
	for w, sum := range run.writeSums {
		if orig, ok := run.protected[filepath.Clean(w)]; ok && sum != "" && sum != mon.SumOf(orig) {
			r.Violate(sig("wrote-bytes-that-are-not-the-original"), "%s [%s]: data handed to WriteFile(%q) is not the protected content; %s", run.op, run.layer, w, run.desc)
		}
	}
	// snapshot diff
	for _, d := range scen.DiffSnap(run.before, run.after) {
		parts := strings.SplitN(d, " ", 2)
		abs := filepath.Join(run.root, parts[1])
		orig, isProt := run.protected[abs]
		if !isProt && run.op == "repair" && parts[0] == "created" && isAncestorOfProtected(abs) {
			continue
		}
		if !isProt {
			r.Violate(sig("non-protected-file-changed"), "%s [%s]: %s (not a protected file); %s", run.op, run.layer, d, run.desc)
			continue
		}
		b, err := os.ReadFile(abs)
		if err != nil || string(b) != string(orig) {
			r.Violate(sig("protected-file-left-with-wrong-bytes"), "%s [%s]: %s and its content is not the protected original (err=%v, %d bytes vs %d); %s", run.op, run.layer, d, err, len(b), len(orig), run.desc)
		}
		if !wrote[abs] {
			r.Violate(sig("change-without-recorded-event"), "%s [%s]: %s but no write event was recorded for it; %s", run.op, run.layer, d, run.desc)
		}
	}
	// files that were written must now hold the originals
	for w := range wrote {
		if orig, ok := run.protected[w]; ok {
			b, err := os.ReadFile(w)
			if err != nil || string(b) != string(orig) {
				r.Violate(sig("written-file-not-original"), "%s [%s]: %q was written but does not hold the protected bytes; %s", run.op, run.layer, w, run.desc)
			}
		}
	}
	if run.haveRes && run.op == "repair" {
		rep := map[string]bool{}
		for _, pth := range run.repaired {
			rep[filepath.Clean(pth)] = true
		}
		changed := map[string]bool{}
		for _, d := range scen.DiffSnap(run.before, run.after) {
			parts := strings.SplitN(d, " ", 2)
			changed[filepath.Join(run.root, parts[1])] = true
		}
		for w := range wrote {
			// a write call that failed and left nothing behind need not be listed;
			// one that completed, or that changed the file anyway, must be
			if !rep[w] && (run.completed == nil || run.completed[w] || changed[w]) {
				r.Violate(sig("written-but-not-listed"), "repair [%s]: %q was written but RepairedPaths=%v (err=%v); %s", run.layer, w, run.repaired, run.err, run.desc)
			}
		}
		for pth := range rep {
			if !wrote[pth] {
				r.Violate(sig("listed-but-not-written"), "repair [%s]: %q is listed in RepairedPaths but no write event targets it; %s", run.layer, pth, run.desc)
			}
		}
	}
	r.Count("runs_"+run.op+"_"+run.layer, 1)
	r.Count("mutating_events_seen", int64(len(run.writes)))
}

func mutatedPaths(evs []mon.FSEvent, root string) []string {
	var out []string
	for _, e := range mon.Mutations(evs) {
		if !strings.HasPrefix(e.Path, root) && !strings.HasPrefix(e.Path2, root) {
			// e.g. /dev/null, /tmp strace-internal: outside the monitored tree
			if strings.HasPrefix(e.Path, "/dev/") || strings.HasPrefix(e.Path, "/proc/") || strings.HasPrefix(e.Path, "/sys/") {
				continue
			}
		}
		out = append(out, e.Path)
		if e.Path2 != "" {
			out = append(out, e.Path2)
		}
	}
	return out
}

func (c *c02) runPar2(r *core.R, p c02Params, rng *rand.Rand) {
	var set scen.Set
	switch p.Kind {
	case "big-altered":
		slice := []int{2000, 4096, 1000}[rng.Intn(3)]
		set = scen.Set{SliceSize: slice, Blocks: 2 + rng.Intn(3), Content: "random"}
		set.Files = append(set.Files, scen.File{Name: "big.bin", Data: scen.GenData(rng, "random", 17000+rng.Intn(12000), slice)})
		if rng.Intn(2) == 0 {
			set.Files = append(set.Files, scen.File{Name: "small.bin", Data: scen.GenData(rng, "random", 1+rng.Intn(3000), slice)})
		}
	case "recreate-after-edit":
		slice := []int{2000, 4096, 1000, 400}[rng.Intn(4)]
		set = scen.Set{SliceSize: slice, Blocks: 2 + rng.Intn(3), Content: "random"}
		set.Files = append(set.Files, scen.File{Name: "big.bin", Data: scen.GenData(rng, "random", 17000+rng.Intn(12000), slice)})
		set.Files = append(set.Files, scen.File{Name: "small.bin", Data: scen.GenData(rng, "random", 1+rng.Intn(2*slice), slice)})
	case "altered-mixed":
		set = genP2Set(rng, 6, []string{"random"}, false)
		for len(set.Files) < 3 {
			set.Files = append(set.Files, scen.File{Name: fmt.Sprintf("more-%d.bin", len(set.Files)), Data: scen.GenData(rng, "random", set.SliceSize+1+rng.Intn(3*set.SliceSize), set.SliceSize)})
		}
		if set.Blocks < 3 {
			set.Blocks = 3
		}
	default:
		set = genP2Set(rng, 6, scen.ContentKinds, true)
	}
	g := []int{1, 2, 5, 16}[rng.Intn(4)]
	// Create through the recording seam: inputs must not change.
	root, err := os.MkdirTemp("", "c02-")
	if err != nil {
		r.Inconclusive("tempdir: %v", err)
		return
	}
	defer os.RemoveAll(root)
	dir := filepath.Join(root, "set")
	paths, _ := set.Materialize(dir)
	addBystanders(rng, dir, "arch", p.Kind == "bystanders-matching")
	idx := filepath.Join(dir, "arch.par2")
	protected := map[string][]byte{}
	for i, f := range set.Files {
		protected[filepath.Clean(paths[i])] = f.Data
	}
	before := scen.Snapshot(root)
	rec := &mon.RecFS{Inner: par2.VerifDefaultFileIO{}}
	var cerr error
	if pi := core.Protect(func() {
		cerr = par2.VerifCreate(rec, idx, paths, par2.CreateOptions{SliceByteCount: set.SliceSize, NumParityShards: set.Blocks, NumGoroutines: g})
	}); pi != nil {
		r.Violate(core.CrashSig("par2.Create", pi.Frame, pi.Msg), "Create panicked: %s", pi.Msg)
		return
	}
	if cerr != nil {
		r.Violate("create-failed", "%v", cerr)
		return
	}
	after := scen.Snapshot(root)
	for _, d := range scen.DiffSnap(before, after) {
		if !strings.HasPrefix(d, "created set/arch.") {
			r.Violate("create-changed-existing-file", "Create: %s", d)
		}
	}
	for _, w := range rec.Writes() {
		if _, isInput := protected[filepath.Clean(w.Path)]; isInput {
			r.Violate("create-wrote-to-input", "Create issued a write to its input %q", w.Path)
		}
	}
	r.Count("runs_create_seam", 1)

	if p.Kind == "recreate-after-edit" {
		// The big file is edited in place behind its first 16 KiB (same length,
		// same name: its PAR2 file ID stays what it was) and the archive is
		// created again with the same options: from now on the edited bytes are
		// the protected ones.
		d := append([]byte(nil), set.Files[0].Data...)
		for k := 0; k < 1+rng.Intn(4); k++ {
			d[16384+rng.Intn(len(d)-16384)] ^= byte(1 + rng.Intn(255))
		}
		set.Files[0].Data = d
		os.WriteFile(paths[0], d, 0644)
		protected[filepath.Clean(paths[0])] = d
		var cerr2 error
		if pi := core.Protect(func() {
			cerr2 = par2.Create(idx, paths, par2.CreateOptions{SliceByteCount: set.SliceSize, NumParityShards: set.Blocks, NumGoroutines: g})
		}); pi != nil || cerr2 != nil {
			r.Violate("create-failed", "second Create after an in-place edit: %v %v", cerr2, pi)
			return
		}
		r.Count("recreated_after_edit", 1)
	}
	// Damage (no capacity filter).
	st := scen.NewState(set)
	nops := rng.Intn(5)
	switch p.Kind {
	case "recreate-after-edit":
		nops = 0
		st.Apply(scen.Op{Kind: "delete", A: 1})
	case "altered-mixed":
		// all files but the last only shifted (every slice still there), the last
		// one loses two slices: the spoilt recovery data cannot restore it
		nops = 0
		for i := 0; i < len(set.Files)-1; i++ {
			st.Apply(scen.Op{Kind: "insert", A: i, Pos: 0, G: scen.Garbage(rng, 1)})
		}
		last := len(set.Files) - 1
		st.Apply(scen.Op{Kind: "overwrite", A: last, Pos: 0, G: scen.Garbage(rng, minInt(len(set.Files[last].Data), set.SliceSize+1))})
	case "intact":
		nops = 0
	case "beyond-capacity":
		nops = 3 + rng.Intn(4)
	case "big-altered":
		nops = 0
		ln := len(set.Files[0].Data)
		st.Apply(scen.Op{Kind: "overwrite", A: 0, Pos: 16384 + rng.Intn(ln-16384-1), G: scen.Garbage(rng, 1+rng.Intn(40))})
	case "altered-recovery":
		nops = 1 + rng.Intn(2)
	}
	for i := 0; i < nops; i++ {
		st.Apply(scen.RandomOp(rng, st))
	}
	env := &p2env{root: root, dir: dir, idx: idx, set: set, st: st, paths: paths}
	env.sync()
	for i, c := range st.Cur {
		if c.Present {
			continue
		}
		for _, twin := range []string{strings.ToLower(paths[i]), strings.ToUpper(paths[i])} {
			// only the last component changes case (directories stay)
			twin = filepath.Join(filepath.Dir(paths[i]), filepath.Base(twin))
			if twin != paths[i] && len(filepath.Base(twin)) < 200 {
				if _, err := os.Lstat(twin); err != nil && os.MkdirAll(filepath.Dir(twin), 0755) == nil {
					os.WriteFile(twin, []byte("an unrelated file"), 0644)
					r.Count("case_twins_beside_deleted_files", 1)
				}
			}
		}
	}
	vols := env.volumeFiles()
	for _, v := range vols {
		switch {
		case p.Kind == "general" && rng.Intn(3) == 0, p.Kind == "beyond-capacity" && rng.Intn(2) == 0:
			os.Remove(v)
		case p.Kind == "garbled-volume" && rng.Intn(2) == 0:
			b, _ := os.ReadFile(v)
			if len(b) > 0 {
				b[rng.Intn(len(b))] ^= 0x20
				os.WriteFile(v, b, 0644)
			}
		case p.Kind == "altered-recovery" || p.Kind == "big-altered" || p.Kind == "altered-mixed":
			// alter the recovery payload and re-checksum the packet
			b, _ := os.ReadFile(v)
			pk, err := par2rw.ParseStrict(b)
			if err == nil {
				for i := range pk {
					if pk[i].Type == par2rw.TypeRecv && len(pk[i].Body) > 8 {
						pk[i].Body[4+rng.Intn(len(pk[i].Body)-4)] ^= byte(1 + rng.Intn(255))
					}
				}
				os.WriteFile(v, par2rw.Serialize(pk), 0644)
			}
		}
	}
	if p.Kind == "foreign-volume" {
		// a recovery file of a different set under a matching name
		var in []par2rw.InFile
		in = append(in, par2rw.InFile{Name: "zzz", Data: scen.Garbage(rng, 50)})
		fs := par2rw.BuildSet(set.SliceSize, in)
		pk := append([]par2rw.Packet{fs.CreatorPacket("foreign")}, fs.Critical()...)
		pk = append(pk, fs.RecvPacket(0))
		os.WriteFile(filepath.Join(dir, "arch.vol90+01.par2"), par2rw.Serialize(pk), 0644)
	}
	desc := fmt.Sprintf("par2 %s: %v ops=%v", p.Kind, setSummary(set), st.Log)

	// Verify through the seam.
	before = scen.Snapshot(root)
	rec = &mon.RecFS{Inner: par2.VerifDefaultFileIO{}}
	var verr error
	if pi := core.Protect(func() { _, verr = par2.VerifVerify(rec, idx, par2.VerifyOptions{NumGoroutines: g}) }); pi != nil {
		r.Count("panics_observed_not_judged_here", 1)
	}
	_ = verr
	c.judge(r, c02Run{op: "verify", layer: "seam", protected: protected, root: root, before: before, after: scen.Snapshot(root), writes: pathsOf(rec.Writes()), desc: desc})

	// Repair.
	dc := rng.Intn(2) == 0
	if p.Strace {
		parExe := os.Getenv("VW_PAR_EXE")
		if parExe != "" {
			// Verify under strace first.
			tv := mon.Trace(root, []string{parExe, "-g", fmt.Sprint(g), "v", idx}, nil)
			if tv.Err != nil {
				r.Inconclusive("strace: %v", tv.Err)
				return
			}
			c.judge(r, c02Run{op: "verify", layer: "strace", protected: protected, root: root, before: before, after: scen.Snapshot(root), writes: mutatedPaths(tv.Events, root), desc: desc})
			r.Count("strace_events", int64(len(tv.Events)))
			args := []string{parExe, "-g", fmt.Sprint(g), "r"}
			if dc {
				args = append(args, "-doublecheck")
			}
			args = append(args, idx)
			if p.Seed%2 == 0 {
				// the archive named twice on the command line
				args = append(args, idx)
			}
			tr := mon.Trace(root, args, nil)
			if tr.Err != nil {
				r.Inconclusive("strace: %v", tr.Err)
				return
			}
			r.Count("strace_events", int64(len(tr.Events)))
			c.judge(r, c02Run{op: "repair", layer: "strace", protected: protected, root: root, before: before, after: scen.Snapshot(root), writes: mutatedPaths(tr.Events, root), desc: desc + fmt.Sprintf(" exit=%d", tr.Exit)})
			// what the command tells the user it repaired: every file it wrote
			if tr.Exit == 0 {
				line := ""
				for _, l := range strings.Split(tr.Output, "\n") {
					if strings.HasPrefix(l, "Repaired files:") {
						line = l
					}
				}
				for _, wpath := range mutatedPaths(tr.Events, root) {
					if _, isProt := protected[filepath.Clean(wpath)]; isProt && !strings.Contains(line, wpath) {
						r.Violate("written-but-not-listed|repair", "par %v exited 0 and wrote %q, but its summary reads %q; %s", args[1:], wpath, line, desc)
					}
				}
				r.Count("cli_repair_summaries_checked", 1)
			}
			r.Key("par2|%s|exit=%d|strace", p.Kind, tr.Exit)
			r.Sample(map[string]interface{}{"format": "par2", "kind": p.Kind, "layer": "strace", "ops": st.Log, "exit": tr.Exit, "fs_events": len(tr.Events), "mutations": mutatedPaths(tr.Events, root)})
			return
		}
	}
	rec = &mon.RecFS{Inner: par2.VerifDefaultFileIO{}}
	var res par2.RepairResult
	var rerr error
	if pi := core.Protect(func() {
		res, rerr = par2.VerifRepair(rec, idx, par2.RepairOptions{NumGoroutines: g, DoubleCheck: dc})
	}); pi != nil {
		r.Count("panics_observed_not_judged_here", 1)
		rerr = fmt.Errorf("panic: %s", pi.Msg)
	}
	sums := map[string]string{}
	completed := map[string]bool{}
	for _, w := range rec.Writes() {
		sums[w.Path] = w.Sum
		if w.Err == "" {
			completed[filepath.Clean(w.Path)] = true
		}
	}
	c.judge(r, c02Run{op: "repair", layer: "seam", completed: completed, protected: protected, root: root, before: before, after: scen.Snapshot(root), writes: pathsOf(rec.Writes()), writeSums: sums, repaired: res.RepairedPaths, haveRes: true, err: rerr, desc: desc})
	r.Count("io_calls_recorded", int64(len(rec.Events)))
	outcome := "ok"
	if rerr != nil {
		outcome = "err"
	}
	r.Key("par2|%s|%s|w=%d|s=%d|f=%d|seam", p.Kind, outcome, len(rec.Writes()), set.SliceSize, len(set.Files))
	r.Sample(map[string]interface{}{"format": "par2", "kind": p.Kind, "layer": "seam", "ops": st.Log, "repair_error": fmt.Sprint(rerr), "repaired": len(res.RepairedPaths), "io_calls": len(rec.Events), "doublecheck": dc})
}

func pathsOf(evs []mon.IOEvent) []string {
	var out []string
	for _, e := range evs {
		out = append(out, e.Path)
	}
	sort.Strings(out)
	return out
}

func (c *c02) runPar1(r *core.R, p c02Params, rng *rand.Rand) {
	nf := 1 + rng.Intn(6)
	nv := 1 + rng.Intn(4)
	files := genP1Files(rng, nf)
	if p.Seed%5 == 1 && p.Kind != "bystanders-matching" {
		// hundreds of parity volumes, and inputs named like the parts of a RAR
		// set with the archive's own base name (<base>.r00, <base>.q01 ...): no
		// volume name a writer may invent beyond .p99 may land on an input
		nv = 200 + rng.Intn(12)
		base := p1Bases[p1BaseCounter%len(p1Bases)]
		for i := range files {
			files[i].Name = base + []string{".r00", ".r01", ".q00", ".q07", ".s00", ".r200", ".r10", ".q99"}[i%8]
		}
		r.Count("par1_sets_with_200_volumes_and_rar_names", 1)
	}
	e, err := newP1Env(files, nv, false)
	if e != nil {
		defer e.close()
	}
	if err != nil {
		r.Inconclusive("env: %v", err)
		return
	}
	root := e.root
	addBystanders(rng, e.dir, e.base, p.Kind == "bystanders-matching")
	protected := map[string][]byte{}
	for i, f := range files {
		protected[filepath.Clean(e.paths[i])] = f.Data
	}
	if p.Seed%3 == 0 && nf >= 2 {
		// An archive from another client: some listed files are NOT saved in
		// the volume set (they are bystanders as far as Repair is concerned).
		var in []par1rw.InFile
		nsaved := 0
		for i, f := range files {
			sv := rng.Intn(3) != 0 || (i == nf-1 && nsaved == 0)
			if sv {
				nsaved++
			} else {
				delete(protected, filepath.Clean(e.paths[i]))
			}
			in = append(in, par1rw.InFile{Name: f.Name, Data: f.Data, Saved: sv, ExtraStatus: []uint64{0, 2}[rng.Intn(2)]})
		}
		os.WriteFile(e.idx, par1rw.Build(in, 0, []byte("c"), 0x00010000), 0644)
		for v := 1; v <= nv; v++ {
			os.WriteFile(e.volPath(v), par1rw.Build(in, v, par1rw.Parity(in, v), 0x00010000), 0644)
		}
		r.Count("reference_written_par1_archives", 1)
		c.par1DamageAndJudge(r, p, rng, e, root, files, nf, nv, protected)
		return
	}
	before := scen.Snapshot(root)
	rec := &mon.RecFS{Inner: par1.VerifDefaultFileIO{}}
	var cerr error
	if pi := core.Protect(func() { cerr = par1.VerifCreate(rec, e.idx, e.paths, par1.CreateOptions{NumParityFiles: nv}) }); pi != nil {
		r.Violate(core.CrashSig("par1.Create", pi.Frame, pi.Msg), "Create panicked: %s", pi.Msg)
		return
	}
	if cerr != nil {
		r.Violate("create-failed", "%v", cerr)
		return
	}
	for _, d := range scen.DiffSnap(before, scen.Snapshot(root)) {
		if !strings.HasPrefix(d, "created "+filepath.Base(e.dir)+"/"+e.base+".") {
			r.Violate("create-changed-existing-file", "Create: %s", d)
		}
	}
	r.Count("runs_create_seam", 1)
	c.par1DamageAndJudge(r, p, rng, e, root, files, nf, nv, protected)
}

func (c *c02) par1DamageAndJudge(r *core.R, p c02Params, rng *rand.Rand, e *p1env, root string, files []scen.File, nf, nv int, protected map[string][]byte) {
	var before map[string]string
	var rec *mon.RecFS
	// damage
	kinds := []string{"delete", "flip", "truncate", "append", "replace"}
	d := p1Damage{bad: map[int]string{}, lostVols: map[int]bool{}}
	nb := rng.Intn(nf + 1)
	if p.Kind == "intact" {
		nb = 0
	}
	if p.Kind == "beyond-capacity" {
		nb = minInt(nf, nv+1)
	}
	for _, i := range rng.Perm(nf)[:nb] {
		d.bad[i] = kinds[rng.Intn(len(kinds))]
	}
	e.apply(d, rng)
	// beside a deleted protected file sits an unrelated file whose name differs
	// from it only in the case of its letters
	for i, k := range d.bad {
		if k != "delete" {
			continue
		}
		for _, twin := range []string{strings.ToLower(files[i].Name), strings.ToUpper(files[i].Name)} {
			tp := filepath.Join(e.dir, twin)
			if twin != files[i].Name && len(twin) < 200 {
				if _, err := os.Lstat(tp); err != nil {
					os.WriteFile(tp, []byte("an unrelated file, "+twin), 0644)
					r.Count("case_twins_beside_deleted_files", 1)
				}
			}
		}
	}
	for v := 1; v <= nv; v++ {
		vp := e.volPath(v)
		switch {
		case (p.Kind == "general" || p.Kind == "beyond-capacity") && rng.Intn(3) == 0:
			os.Remove(vp)
		case p.Kind == "garbled-volume" && rng.Intn(2) == 0:
			if b, _ := os.ReadFile(vp); len(b) > 0 {
				b[rng.Intn(len(b))] ^= 0x11
				os.WriteFile(vp, b, 0644)
			}
		case p.Kind == "altered-recovery" || p.Kind == "big-altered":
			b, _ := os.ReadFile(vp)
			if len(b) > 0x61 {
				// flip a parity byte (at the end) and fix the control hash
				b[len(b)-1-rng.Intn(minInt(len(b)-0x60, 200))] ^= byte(1 + rng.Intn(255))
				par1rw.Rehash(b)
				os.WriteFile(vp, b, 0644)
			}
		case p.Kind == "foreign-volume" && v == nv:
			in := []par1rw.InFile{{Name: "other", Data: scen.Garbage(rng, 80), Saved: true}}
			os.WriteFile(vp, par1rw.Build(in, v, par1rw.Parity(in, v), 0x00010000), 0644)
		}
	}
	desc := fmt.Sprintf("par1 %s: files=%d volumes=%d bad=%v", p.Kind, nf, nv, d.bad)
	before = scen.Snapshot(root)
	rec = &mon.RecFS{Inner: par1.VerifDefaultFileIO{}}
	if pi := core.Protect(func() { par1.VerifVerify(rec, e.idx, par1.VerifyOptions{VerifyAllData: rng.Intn(2) == 0}) }); pi != nil {
		r.Count("panics_observed_not_judged_here", 1)
	}
	c.judge(r, c02Run{op: "verify", layer: "seam", protected: protected, root: root, before: before, after: scen.Snapshot(root), writes: pathsOf(rec.Writes()), desc: desc})
	dc := rng.Intn(2) == 0
	if p.Strace && os.Getenv("VW_PAR_EXE") != "" {
		parExe := os.Getenv("VW_PAR_EXE")
		args := []string{parExe, "r"}
		if dc {
			args = append(args, "-doublecheck")
		}
		args = append(args, e.idx)
		tr := mon.Trace(root, args, nil)
		if tr.Err != nil {
			r.Inconclusive("strace: %v", tr.Err)
			return
		}
		r.Count("strace_events", int64(len(tr.Events)))
		c.judge(r, c02Run{op: "repair", layer: "strace", protected: protected, root: root, before: before, after: scen.Snapshot(root), writes: mutatedPaths(tr.Events, root), desc: desc + fmt.Sprintf(" exit=%d", tr.Exit)})
		r.Key("par1|%s|exit=%d|strace", p.Kind, tr.Exit)
		r.Sample(map[string]interface{}{"format": "par1", "kind": p.Kind, "layer": "strace", "bad": d.bad, "exit": tr.Exit, "fs_events": len(tr.Events)})
		return
	}
	rec = &mon.RecFS{Inner: par1.VerifDefaultFileIO{}}
	var res par1.RepairResult
	var rerr error
	if pi := core.Protect(func() { res, rerr = par1.VerifRepair(rec, e.idx, par1.RepairOptions{DoubleCheck: dc}) }); pi != nil {
		r.Count("panics_observed_not_judged_here", 1)
		rerr = fmt.Errorf("panic: %s", pi.Msg)
	}
	sums := map[string]string{}
	completed := map[string]bool{}
	for _, w := range rec.Writes() {
		sums[w.Path] = w.Sum
		if w.Err == "" {
			completed[filepath.Clean(w.Path)] = true
		}
	}
	c.judge(r, c02Run{op: "repair", layer: "seam", completed: completed, protected: protected, root: root, before: before, after: scen.Snapshot(root), writes: pathsOf(rec.Writes()), writeSums: sums, repaired: res.RepairedPaths, haveRes: true, err: rerr, desc: desc})
	r.Count("io_calls_recorded", int64(len(rec.Events)))
	outcome := "ok"
	if rerr != nil {
		outcome = "err"
	}
	r.Key("par1|%s|%s|w=%d|f=%d|v=%d|seam", p.Kind, outcome, len(rec.Writes()), nf, nv)
	r.Sample(map[string]interface{}{"format": "par1", "kind": p.Kind, "layer": "seam", "bad": d.bad, "repair_error": fmt.Sprint(rerr), "repaired": len(res.RepairedPaths), "io_calls": len(rec.Events)})
}
