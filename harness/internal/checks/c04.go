package checks

import (
	"fmt"
	"math/rand"
	"os"
	"path/filepath"
	"sort"
	"strings"

	"github.com/akalin/gopar/par1"

	"verifharness/internal/core"
	"verifharness/internal/ref/par1rw"
	"verifharness/internal/scen"
)

// C04 — PAR1 create / verify / repair round trip.
// C10 — PAR1 layout conformance in both directions.

type c04 struct{ base }
type c10 struct{ base }

type p1Params struct {
	Seed int64  `json:"seed"`
	Kind string `json:"kind"`
}

func init() {
	register(&c04{base{
		id:          "C04",
		level:       lvlExploration,
		rule:        "each case: a seeded PAR1 set (1..40 files of unequal sizes incl. empty files next to non-empty ones and files >16 KiB, Unicode incl. non-BMP names, 1..99 parity volumes) created with the real par1.Create, then (a) the untouched set must verify clean incl. the full parity check, and (b) damage patterns are applied: for sets with <=4 files and <=4 volumes EVERY subset of damaged data files (deleted or corrupted) x EVERY subset of deleted volumes (exhaustive mode), otherwise seeded subsets. Verify's counts must equal the truth by construction; Repair must restore every file whenever unusable data <= usable volumes unless the forced sub-matrix ((i)^(v-1) over GF(2^8)/0x11D, lowest available volumes x missing files) is singular by reference elimination, in which case an error is required. A key is (files, volumes, damaged set, lost volumes, damage kind). Further kinds: files of hundreds of KiB with unaligned lengths; 255 files + 1 volume. Base names and directories may contain '%'; names up to 200 characters; Create's postcondition (index and volumes 1..n under their PAR 1.0 names) is checked. One data name in seven is named like the set's own files (<index base>.part1.rar, .p01.txt, .par.bak ...).. Case upper-ext (SET.PAR: refusal or a working round trip); a sixth of the generated files repeat another file's bytes. After every successful Repair with lost volumes the state it left is verified again (usable volumes = volume files with their original bytes). Kind twin-sets: two sets with the same contents under other names of equal length, verified and repaired alternately in one process.",
		assumptions: append([]string{"klauspost/reedsolomon uses the lowest-numbered available parity rows (checked: singular outcomes must coincide with the reference)"}, commonAssumptions...),
		opts:        core.WorkerOpts{CrashIsViolation: true, WallSeconds: 2400, Exhaustive: true, Extra: map[string]interface{}{"exhaustive_subspace": "sets of 1..4 files x 1..4 volumes: every subset of damaged data files x every subset of deleted volumes"}},
	}})
	register(&c10{base{
		id:          "C10",
		level:       lvlExploration,
		rule:        "writer direction: every .par/.pNN written by the real par1.Create for a seeded set is parsed by an independent PAR 1.0 reader (header fields, control hash over bytes from 0x20, set hash over saved entries, offsets/sizes, UTF-16LE names incl. surrogate pairs, status bit 0) and its parity bytes are recomputed as sum i^(v-1)*file_i over GF(2^8)/0x11D; reader direction: sets produced by an independent writer (comment in the index volume, non-saved entries at every position among the saved ones, surrogate-pair names, generator id in the version field) are verified and repaired by gopar within capacity. A key is (direction, files, volumes, placement of non-saved entries / name class). Non-saved entries are kept absent or altered on disk through every judged state; sets with exactly 255 saved entries (with 0..2 more that are not saved) and one volume. Writer direction also through ONE par1.Encoder object with a repeated LoadFileData step.. Reader cases also judge intact data with a hole in the volume numbering under the full check, and all saved files lost at once.. Reader cases also judge the state without any parity volume. Reader sets whose client-maintained status bits differ between the index and the parity volumes.",
		assumptions: commonAssumptions,
		opts:        core.WorkerOpts{CrashIsViolation: true, WallSeconds: 2400},
	}})
}

func (c *c04) Cases(tier string, seed int64) []core.Case {
	var cs []core.Case
	r := core.Rng("C04", tier, seed)
	for nf := 1; nf <= 4; nf++ {
		for nv := 1; nv <= 4; nv++ {
			reps := 1
			if tier == "thorough" {
				reps = 4
			}
			for k := 0; k < reps; k++ {
				cs = append(cs, core.MkCase(fmt.Sprintf("exh-f%d-v%d-%d", nf, nv, k), p1Params{r.Int63(), fmt.Sprintf("exh:%d:%d", nf, nv)}))
			}
		}
	}
	n := map[string]int{"quick": 300, "thorough": 20000}[tier]
	for i := 0; i < n; i++ {
		cs = append(cs, core.MkCase(fmt.Sprintf("rnd-%d", i), p1Params{r.Int63(), "random"}))
	}
	cs = append(cs, core.MkCase("fixed-no-volumes", p1Params{1, "fixed-no-volumes"}))
	cs = append(cs, core.MkCase("max-99-volumes", p1Params{r.Int63(), "max99"}))
	cs = append(cs, core.MkCase("files-plus-volumes-256", p1Params{r.Int63(), "sum256"}))
	cs = append(cs, core.MkCase("files-255-plus-1-volume", p1Params{r.Int63(), "max255files"}))
	cs = append(cs, core.MkCase("singular-constructed", p1Params{r.Int63(), "singular"}))
	cs = append(cs, core.MkCase("upper-case-extension", p1Params{r.Int63(), "upper-ext"}))
	for i := 0; i < map[string]int{"quick": 3, "thorough": 30}[tier]; i++ {
		cs = append(cs, core.MkCase(fmt.Sprintf("twin-sets-other-names-%d", i), p1Params{r.Int63(), "twin-sets"}))
	}
	for i := 0; i < map[string]int{"quick": 3, "thorough": 40}[tier]; i++ {
		cs = append(cs, core.MkCase(fmt.Sprintf("big-files-%d", i), p1Params{r.Int63(), "big"}))
	}
	return cs
}

var p1Names = []string{"a.txt", "data.bin", "file one", "ünï.dat", "日本語.txt", "grin-😀.dat", "𝔘𝔫𝔦.bin", "UPPER", "x.y.z", "tab\tname", "Ωmega", "p01", "set.par.txt",
	"back\\slash.dat", "100%.dat", strings.Repeat("n", 125), strings.Repeat("n", 126), strings.Repeat("long name ", 20), strings.Repeat("世", 80)}

func genP1Files(rng *rand.Rand, nf int) []scen.File {
	var fs []scen.File
	used := map[string]bool{}
	hasNonEmpty := false
	for i := 0; i < nf; i++ {
		name := fmt.Sprintf("%d-%s", i, p1Names[rng.Intn(len(p1Names))])
		if rng.Intn(8) == 0 {
			// the shortest legal names: one UTF-16 code unit, and one surrogate pair
			name = []string{"a", "7", "世", "Ω", "😀", "_"}[rng.Intn(6)]
		}
		if rng.Intn(7) == 0 {
			// a data file named like the archive that will protect it: the
			// base name of the next index file plus something that merely
			// begins like an archive extension
			name = p1Bases[p1BaseCounter%len(p1Bases)] + []string{".part1.rar", ".p01.txt", ".par.bak", ".parity", ".P02x", ".par2"}[rng.Intn(6)]
		}
		for used[name] {
			name += "_"
		}
		used[name] = true
		var n int
		switch rng.Intn(10) {
		case 0:
			n = 0
		case 1:
			n = 1
		case 2:
			n = 16383 + rng.Intn(4)
		case 3:
			n = 17000 + rng.Intn(9000)
		default:
			n = 1 + rng.Intn(600)
		}
		data := scen.GenData(rng, []string{"random", "random", "zeros", "period"}[rng.Intn(4)], n, 16)
		if len(fs) > 0 && rng.Intn(6) == 0 {
			// the same bytes under a second name
			data = append([]byte(nil), fs[rng.Intn(len(fs))].Data...)
			n = len(data)
		}
		if len(data) > 0 {
			hasNonEmpty = true
		}
		fs = append(fs, scen.File{Name: name, Data: data})
	}
	if !hasNonEmpty {
		fs[0].Data = scen.GenData(rng, "random", 1+rng.Intn(100), 16)
	}
	return fs
}

// p1env is a PAR1 set on a real directory.
type p1env struct {
	root, dir, idx string
	files          []scen.File
	paths          []string
	nv             int
	base           string
	// bystander[i] is the state kept for an entry that is NOT saved in the
	// parity set: "absent" or "altered" (such files are none of the
	// archive's business)
	bystander map[int]string
}

func (e *p1env) close() { os.RemoveAll(e.root) }

func newP1Env(files []scen.File, nv int, create bool) (*p1env, error) {
	root, err := os.MkdirTemp("", "p1-")
	if err != nil {
		return nil, err
	}
	e := &p1env{root: root, dir: filepath.Join(root, envDirName()), files: files, nv: nv}
	e.base = p1Bases[p1BaseCounter%len(p1Bases)]
	p1BaseCounter++
	e.idx = filepath.Join(e.dir, e.base+".par")
	os.MkdirAll(e.dir, 0755)
	for _, f := range files {
		p := filepath.Join(e.dir, f.Name)
		if err := os.WriteFile(p, f.Data, 0644); err != nil {
			return e, err
		}
		e.paths = append(e.paths, p)
	}
	if create {
		var cerr error
		if p1CreateHook != nil {
			var hpi *core.PanicInfo
			cerr, hpi = p1CreateHook(e.idx, e.paths, nv)
			if hpi != nil {
				return e, fmt.Errorf("Create panicked: %s [%s]", hpi.Msg, hpi.Frame)
			}
		} else if pi := core.Protect(func() { cerr = par1.Create(e.idx, e.paths, par1.CreateOptions{NumParityFiles: nv}) }); pi != nil {
			return e, fmt.Errorf("Create panicked: %s [%s]", pi.Msg, pi.Frame)
		}
		if cerr != nil {
			return e, fmt.Errorf("Create: %w", cerr)
		}
		// Create's postcondition: the index and volumes 1..nv exist under
		// their PAR 1.0 names
		want := []string{e.idx}
		for v := 1; v <= nv; v++ {
			want = append(want, e.volPath(v))
		}
		for _, w := range want {
			if _, err := os.Stat(w); err != nil {
				var have []string
				if des, derr := os.ReadDir(e.dir); derr == nil {
					for _, de := range des {
						have = append(have, de.Name())
					}
				}
				return e, fmt.Errorf("Create returned nil but did not write %q (directory holds %q)", filepath.Base(w), have)
			}
		}
	}
	return e, nil
}

func (e *p1env) volPath(v int) string {
	return filepath.Join(e.dir, fmt.Sprintf("%s.p%02d", e.base, v))
}

// p1CreateHook, if set, writes the set instead of par1.Create.
var p1CreateHook func(idx string, paths []string, nv int) (error, *core.PanicInfo)

// index base names, some ending in characters of ".par"
var p1Bases = []string{"arch", "data", "backup", "par", "a.p", "extra.", "set r", "backup 100%", "my%20file", "%d%s%"}
var p1BaseCounter int

// p1Damage describes one damage pattern.
type p1Damage struct {
	bad      map[int]string // file index -> "delete" | "flip" | "truncate" | "append" | "replace"
	lostVols map[int]bool   // 1-based
}

func (e *p1env) apply(d p1Damage, rng *rand.Rand) {
	for i, f := range e.files {
		kind, isBad := d.bad[i]
		p := e.paths[i]
		if st := e.bystander[i]; st != "" && !isBad {
			if st == "absent" {
				os.Remove(p)
			} else {
				os.WriteFile(p, append([]byte("altered "), f.Data...), 0644)
			}
			continue
		}
		if !isBad {
			os.WriteFile(p, f.Data, 0644)
			continue
		}
		switch kind {
		case "delete":
			os.Remove(p)
		case "flip":
			b := append([]byte(nil), f.Data...)
			if len(b) == 0 {
				b = []byte{1}
			} else {
				b[rng.Intn(len(b))] ^= byte(1 + rng.Intn(255))
			}
			os.WriteFile(p, b, 0644)
		case "truncate":
			if len(f.Data) == 0 {
				os.WriteFile(p, []byte{7}, 0644)
			} else {
				os.WriteFile(p, f.Data[:rng.Intn(len(f.Data))], 0644)
			}
		case "append":
			os.WriteFile(p, append(append([]byte(nil), f.Data...), byte(1+rng.Intn(255))), 0644)
		case "flip-tail":
			b := append([]byte(nil), f.Data...)
			if len(b) == 0 {
				b = []byte{2}
			} else {
				b[len(b)-1] ^= 0x01
			}
			os.WriteFile(p, b, 0644)
		case "cut-16k":
			// boundary of the first-16-KiB hash: keep exactly 16384 bytes
			// (files that are shorter lose their last byte instead)
			switch {
			case len(f.Data) > 16384:
				os.WriteFile(p, f.Data[:16384], 0644)
			case len(f.Data) > 0:
				os.WriteFile(p, f.Data[:len(f.Data)-1], 0644)
			default:
				os.WriteFile(p, []byte{5}, 0644)
			}
		default:
			os.WriteFile(p, scen.Garbage(rng, 1+rng.Intn(50)), 0644)
		}
	}
}

// judge runs Verify and Repair for one damage pattern. vols holds the
// pristine volume bytes (1-based).
func p1Judge(r *core.R, e *p1env, vols map[int][]byte, d p1Damage, rng *rand.Rand, savedIdx []int, doubleCheck bool) {
	e.apply(d, rng)
	var avail []int
	for v := 1; v <= e.nv; v++ {
		if d.lostVols[v] {
			os.Remove(e.volPath(v))
		} else {
			os.WriteFile(e.volPath(v), vols[v], 0644)
			avail = append(avail, v)
		}
	}
	// truth
	// Truth is read back from the disk, not assumed from the intended damage
	// (a "replace" of a 1-byte file can reproduce the original byte).
	var missing []int // positions among saved files
	for k, i := range savedIdx {
		b, err := os.ReadFile(e.paths[i])
		if err != nil || string(b) != string(e.files[i].Data) {
			missing = append(missing, k)
		}
	}
	nSaved := len(savedIdx)
	desc := fmt.Sprintf("files=%d saved=%d volumes=%d bad=%v lostVolumes=%v", len(e.files), nSaved, e.nv, d.bad, keysOf(d.lostVols))
	core.Note("PAR1 %s", desc)
	var vr par1.VerifyResult
	var verr error
	if pi := core.Protect(func() { vr, verr = par1.Verify(e.idx, par1.VerifyOptions{VerifyAllData: true}) }); pi != nil {
		r.Violate(core.CrashSig("par1.Verify", pi.Frame, pi.Msg), "%s: Verify panicked: %s", desc, pi.Msg)
		return
	}
	r.Count("verifies", 1)
	if verr != nil {
		r.Violate("verify-error", "%s: Verify error %v", desc, verr)
		return
	}
	fc := vr.FileCounts
	if fc.UsableDataFileCount != nSaved-len(missing) || fc.UnusableDataFileCount != len(missing) {
		r.Violate("data-counts-wrong", "%s: usable/unusable data = %d/%d, truth %d/%d", desc, fc.UsableDataFileCount, fc.UnusableDataFileCount, nSaved-len(missing), len(missing))
	}
	if fc.UsableParityFileCount != len(avail) {
		r.Violate("parity-count-wrong", "%s: usable parity volumes = %d, present and intact %d", desc, fc.UsableParityFileCount, len(avail))
	}
	if fc.RepairNeeded() != (len(missing) > 0) || fc.RepairPossible() != (len(missing) <= len(avail)) {
		r.Violate("needed-possible-wrong", "%s: RepairNeeded=%v RepairPossible=%v", desc, fc.RepairNeeded(), fc.RepairPossible())
	}
	if len(missing) == 0 && len(d.lostVols) == 0 && !vr.AllDataOk {
		r.Violate("untouched-set-not-clean", "%s: AllDataOk=false on an untouched set with the full parity check", desc)
	}
	// Repair
	var rr par1.RepairResult
	var rerr error
	if pi := core.Protect(func() { rr, rerr = par1.Repair(e.idx, par1.RepairOptions{DoubleCheck: doubleCheck}) }); pi != nil {
		r.Violate(core.CrashSig("par1.Repair", pi.Frame, pi.Msg), "%s: Repair panicked: %s", desc, pi.Msg)
		return
	}
	r.Count("repairs", 1)
	var wrong []string
	for _, i := range savedIdx {
		b, err := os.ReadFile(e.paths[i])
		if err != nil || string(b) != string(e.files[i].Data) {
			wrong = append(wrong, e.files[i].Name)
		}
	}
	if rerr == nil && len(wrong) > 0 {
		r.Violate("repair-nil-but-files-differ", "%s: Repair returned nil (repaired %v) but %v differ", desc, rr.RepairedPaths, wrong)
	}
	if rerr == nil && len(wrong) == 0 && len(d.lostVols) > 0 {
		// The state Repair left behind: a parity volume is usable iff it is
		// present and intact, whoever wrote it.
		intact := 0
		var altered []int
		for v := 1; v <= e.nv; v++ {
			b, err := os.ReadFile(e.volPath(v))
			if err != nil {
				continue
			}
			if string(b) == string(vols[v]) {
				intact++
			} else {
				altered = append(altered, v)
			}
		}
		var vr2 par1.VerifyResult
		var verr2 error
		if pi := core.Protect(func() { vr2, verr2 = par1.Verify(e.idx, par1.VerifyOptions{VerifyAllData: true}) }); pi != nil {
			r.Violate(core.CrashSig("par1.Verify", pi.Frame, pi.Msg), "%s: Verify after Repair panicked: %s", desc, pi.Msg)
		} else if verr2 == nil {
			if vr2.FileCounts.UsableParityFileCount != intact || vr2.FileCounts.UnusableDataFileCount != 0 {
				r.Violate("counts-wrong-after-repair", "%s: after a successful Repair Verify counts %d usable parity volumes and %d unusable data files; %d volume files are present with their original bytes (present but different: %v)", desc, vr2.FileCounts.UsableParityFileCount, vr2.FileCounts.UnusableDataFileCount, intact, altered)
			}
		} else if len(altered) == 0 {
			r.Violate("verify-error-after-repair", "%s: Verify after a successful Repair: %v", desc, verr2)
		}
		r.Count("verifies_after_repair", 1)
	}
	if len(missing) <= len(avail) {
		sing := len(missing) > 0 && par1rw.ForcedSingular(missing, avail[:len(missing)])
		if sing {
			r.Count("singular_forced_systems", 1)
			if rerr == nil {
				r.Violate("success-on-singular-system", "%s: forced PAR1 sub-matrix is singular by reference but Repair returned nil", desc)
			}
		} else if rerr != nil {
			r.Violate("repair-failed-within-capacity", "%s: %d unusable data files <= %d usable volumes, forced sub-matrix non-singular, Repair failed: %v", desc, len(missing), len(avail), rerr)
		}
		r.Count("demanded", 1)
	} else {
		if rerr == nil {
			r.Violate("repair-nil-beyond-capacity", "%s: Repair returned nil with %d unusable files and %d volumes", desc, len(missing), len(avail))
		}
		r.Count("beyond_capacity", 1)
	}
	if len(d.bad) > 0 || len(d.lostVols) > 0 {
		r.Key("f=%d|v=%d|bad=%v|lost=%v", len(e.files), e.nv, d.bad, keysOf(d.lostVols))
	}
}

func keysOf(m map[int]bool) []int {
	var k []int
	for x := range m {
		k = append(k, x)
	}
	sort.Ints(k)
	return k
}

// runUpperExt: an index path whose extension is spelled in another case.
// Create may refuse it; if it accepts, the set it wrote must work under the
// very path it was given.
func (c *c04) runUpperExt(r *core.R, rng *rand.Rand) {
	for _, ext := range []string{".PAR", ".Par", ".pAR"} {
		root, err := os.MkdirTemp("", "c04u-")
		if err != nil {
			r.Inconclusive("tempdir: %v", err)
			return
		}
		dir := filepath.Join(root, "set")
		os.MkdirAll(dir, 0755)
		var paths []string
		var datas [][]byte
		for i := 0; i < 3; i++ {
			b := scen.GenData(rng, "random", 10+rng.Intn(300), 16)
			pth := filepath.Join(dir, fmt.Sprintf("U%d.DAT", i))
			os.WriteFile(pth, b, 0644)
			paths = append(paths, pth)
			datas = append(datas, b)
		}
		idx := filepath.Join(dir, "SET"+ext)
		var cerr error
		if pi := core.Protect(func() { cerr = par1.Create(idx, paths, par1.CreateOptions{NumParityFiles: 2}) }); pi != nil {
			r.Violate(core.CrashSig("par1.Create", pi.Frame, pi.Msg), "Create(%q) panicked: %s", "SET"+ext, pi.Msg)
		} else if cerr != nil {
			r.Count("upper_case_extension_refused", 1)
		} else {
			os.Remove(paths[1])
			var vr par1.VerifyResult
			var verr, rerr error
			pi := core.Protect(func() {
				vr, verr = par1.Verify(idx, par1.VerifyOptions{})
				_, rerr = par1.Repair(idx, par1.RepairOptions{})
			})
			b, _ := os.ReadFile(paths[1])
			switch {
			case pi != nil:
				r.Violate(core.CrashSig("par1", pi.Frame, pi.Msg), "set created as %q: panic %s", "SET"+ext, pi.Msg)
			case verr != nil || vr.FileCounts.UsableParityFileCount != 2 || vr.FileCounts.UnusableDataFileCount != 1:
				r.Violate("parity-count-wrong", "Create(%q) succeeded; one file deleted; Verify of the same path: err=%v counts=%+v (2 volumes and 1 unusable file expected)", "SET"+ext, verr, vr.FileCounts)
			case rerr != nil || string(b) != string(datas[1]):
				r.Violate("repair-failed-within-capacity", "Create(%q) succeeded; one file deleted; Repair of the same path: %v", "SET"+ext, rerr)
			}
			r.Count("upper_case_extension_accepted", 1)
		}
		r.Key("upper-ext|%s|%v", ext, cerr == nil)
		os.RemoveAll(root)
	}
}

func (c *c04) Run(cs core.Case) core.Result {
	var p p1Params
	core.Decode(cs, &p)
	r := core.NewR(cs)
	rng := rand.New(rand.NewSource(p.Seed))
	if p.Kind == "twin-sets" {
		c.runTwinSets(r, rng)
		return r.Done()
	}
	if p.Kind == "upper-ext" {
		c.runUpperExt(r, rng)
		return r.Done()
	}
	var nf, nv int
	exh := false
	kinds := []string{"delete", "flip", "truncate", "append", "replace", "flip-tail", "cut-16k"}
	switch {
	case len(p.Kind) > 4 && p.Kind[:4] == "exh:":
		fmt.Sscanf(p.Kind, "exh:%d:%d", &nf, &nv)
		exh = true
	case p.Kind == "fixed-no-volumes":
		nf, nv = 2, 2
	case p.Kind == "max99":
		nf, nv = 3, 99
	case p.Kind == "sum256":
		nf, nv = 250, 6
	case p.Kind == "max255files":
		nf, nv = 255, 1
	case p.Kind == "singular":
		nf, nv = 20, 6
	case p.Kind == "big":
		nf, nv = 3+rng.Intn(3), 2
	default:
		nf = 1 + rng.Intn(8)
		if rng.Intn(5) == 0 {
			nf = 9 + rng.Intn(32)
		}
		nv = 1 + rng.Intn(8)
		if rng.Intn(6) == 0 {
			nv = 9 + rng.Intn(91)
		}
	}
	files := genP1Files(rng, nf)
	if p.Kind == "big" {
		// hundreds of KiB, all lengths different and unaligned: anything done in
		// blocks or stripes sees full blocks, partial ones and files that end in
		// different blocks
		for i := range files {
			n := 100000 + rng.Intn(700000)
			if i == 0 {
				n = 256*1024*(1+rng.Intn(3)) + []int{0, 1, -1, 4096, 12345}[rng.Intn(5)]
			}
			files[i].Data = scen.GenData(rng, "random", n, 16)
		}
	}
	if p.Kind == "sum256" || p.Kind == "singular" || p.Kind == "max255files" {
		for i := range files {
			if len(files[i].Data) > 300 {
				files[i].Data = files[i].Data[:300]
			}
		}
	}
	e, err := newP1Env(files, nv, true)
	if e != nil {
		defer e.close()
	}
	if err != nil {
		r.Violate("create-failed", "%v", err)
		return r.Done()
	}
	vols := map[int][]byte{}
	for v := 1; v <= nv; v++ {
		b, err := os.ReadFile(e.volPath(v))
		if err != nil {
			r.Violate("volume-not-written", "volume %d of %d was not written: %v", v, nv, err)
			return r.Done()
		}
		vols[v] = b
	}
	saved := make([]int, nf)
	for i := range saved {
		saved[i] = i
	}
	// untouched
	p1Judge(r, e, vols, p1Damage{bad: map[int]string{}, lostVols: map[int]bool{}}, rng, saved, true)
	switch {
	case exh:
		for dm := 0; dm < 1<<uint(nf); dm++ {
			for vm := 0; vm < 1<<uint(nv); vm++ {
				d := p1Damage{bad: map[int]string{}, lostVols: map[int]bool{}}
				for i := 0; i < nf; i++ {
					if dm&(1<<uint(i)) != 0 {
						d.bad[i] = kinds[rng.Intn(len(kinds))]
					}
				}
				for v := 0; v < nv; v++ {
					if vm&(1<<uint(v)) != 0 {
						d.lostVols[v+1] = true
					}
				}
				p1Judge(r, e, vols, d, rng, saved, (dm+vm)%2 == 0)
			}
		}
	case p.Kind == "fixed-no-volumes":
		p1Judge(r, e, vols, p1Damage{bad: map[int]string{}, lostVols: map[int]bool{1: true, 2: true}}, rng, saved, true)
		p1Judge(r, e, vols, p1Damage{bad: map[int]string{0: "delete"}, lostVols: map[int]bool{1: true, 2: true}}, rng, saved, false)
	case p.Kind == "max99" || p.Kind == "sum256" || p.Kind == "max255files":
		// only the highest volume survives; one file lost
		d := p1Damage{bad: map[int]string{rng.Intn(nf): "delete"}, lostVols: map[int]bool{}}
		for v := 1; v < nv; v++ {
			d.lostVols[v] = true
		}
		p1Judge(r, e, vols, d, rng, saved, true)
		d2 := p1Damage{bad: map[int]string{0: "flip", nf - 1: "delete"}, lostVols: map[int]bool{1: true}}
		p1Judge(r, e, vols, d2, rng, saved, false)
	case p.Kind == "singular":
		// look for singular forced systems by reference and run them
		found := 0
		for t := 0; t < 4000 && found < 12; t++ {
			k := 2 + rng.Intn(2)
			miss := rng.Perm(nf)[:k]
			sort.Ints(miss)
			av := rng.Perm(nv)[:k]
			sort.Ints(av)
			for i := range av {
				av[i]++
			}
			if !par1rw.ForcedSingular(miss, av) {
				continue
			}
			found++
			d := p1Damage{bad: map[int]string{}, lostVols: map[int]bool{}}
			for _, m := range miss {
				d.bad[m] = "delete"
			}
			for v := 1; v <= nv; v++ {
				if !isIn(v, av) {
					d.lostVols[v] = true
				}
			}
			p1Judge(r, e, vols, d, rng, saved, false)
		}
		r.Count("constructed_singular", int64(found))
	default:
		for t := 0; t < 6; t++ {
			d := p1Damage{bad: map[int]string{}, lostVols: map[int]bool{}}
			nb := rng.Intn(minInt(nf, nv+1) + 1)
			for _, i := range rng.Perm(nf)[:nb] {
				d.bad[i] = kinds[rng.Intn(len(kinds))]
			}
			nl := rng.Intn(nv + 1)
			if t%2 == 0 && nv-nb >= 0 {
				nl = nv - nb // exactly at capacity
			}
			for _, v := range rng.Perm(nv)[:nl] {
				d.lostVols[v+1] = true
			}
			p1Judge(r, e, vols, d, rng, saved, t%2 == 0)
		}
	}
	var sizes []int
	for _, f := range files {
		sizes = append(sizes, len(f.Data))
	}
	if len(sizes) > 12 {
		sizes = sizes[:12]
	}
	r.Sample(map[string]interface{}{"kind": p.Kind, "files": nf, "volumes": nv, "sizes": sizes, "first_name": files[0].Name})
	return r.Done()
}

func minInt(a, b int) int {
	if a < b {
		return a
	}
	return b
}

// runTwinSets: two PAR1 sets in two directories protect the same contents
// under different names of equal length (a renamed copy with its own set: the
// set hash covers content hashes only). They are verified and repaired one
// after the other in this process, in both orders: each under its own names.
func (c *c04) runTwinSets(r *core.R, rng *rand.Rand) {
	root, err := os.MkdirTemp("", "c04twin-")
	if err != nil {
		r.Inconclusive("tempdir: %v", err)
		return
	}
	defer os.RemoveAll(root)
	nf := 2 + rng.Intn(3)
	var contents [][]byte
	for i := 0; i < nf; i++ {
		contents = append(contents, scen.GenData(rng, "random", 1+rng.Intn(600), 16))
	}
	type twin struct {
		dir, idx string
		names    []string
	}
	mk := func(tag string, letter byte) (twin, error) {
		t := twin{dir: filepath.Join(root, tag)}
		os.MkdirAll(t.dir, 0755)
		var paths []string
		for i := range contents {
			n := fmt.Sprintf("%c%c%c%ca-%d.dat", letter, letter+1, letter, letter+2, i)
			t.names = append(t.names, n)
			os.WriteFile(filepath.Join(t.dir, n), contents[i], 0644)
			paths = append(paths, filepath.Join(t.dir, n))
		}
		t.idx = filepath.Join(t.dir, "set.par")
		return t, par1.Create(t.idx, paths, par1.CreateOptions{NumParityFiles: 2})
	}
	a, errA := mk("A", 'a')
	b, errB := mk("B", 'k')
	if errA != nil || errB != nil {
		r.Violate("create-failed", "twin sets: %v / %v", errA, errB)
		return
	}
	judge := func(t twin, what string) {
		var vr par1.VerifyResult
		var verr error
		if pi := core.Protect(func() { vr, verr = par1.Verify(t.idx, par1.VerifyOptions{VerifyAllData: true}) }); pi != nil {
			r.Violate(core.CrashSig("par1.Verify", pi.Frame, pi.Msg), "%s: Verify panicked: %s", what, pi.Msg)
			return
		}
		if verr != nil || vr.FileCounts.UsableDataFileCount != nf || vr.FileCounts.UnusableDataFileCount != 0 {
			r.Violate("data-counts-wrong", "%s: untouched set: usable/unusable = %d/%d, truth %d/0 (err=%v)", what, vr.FileCounts.UsableDataFileCount, vr.FileCounts.UnusableDataFileCount, nf, verr)
		}
		victim := rng.Intn(nf)
		os.Remove(filepath.Join(t.dir, t.names[victim]))
		before := scen.Snapshot(t.dir)
		var rr par1.RepairResult
		var rerr error
		if pi := core.Protect(func() { rr, rerr = par1.Repair(t.idx, par1.RepairOptions{}) }); pi != nil {
			r.Violate(core.CrashSig("par1.Repair", pi.Frame, pi.Msg), "%s: Repair panicked: %s", what, pi.Msg)
			return
		}
		got, _ := os.ReadFile(filepath.Join(t.dir, t.names[victim]))
		if rerr != nil || string(got) != string(contents[victim]) {
			r.Violate("repair-failed-within-capacity", "%s: one file deleted, two volumes: Repair err=%v, repaired %v, file restored=%v", what, rerr, rr.RepairedPaths, string(got) == string(contents[victim]))
		}
		for _, d := range scen.DiffSnap(before, scen.Snapshot(t.dir)) {
			if !strings.HasSuffix(d, " "+t.names[victim]) {
				r.Violate("repair-wrote-other-file", "%s: Repair of one deleted file changed the directory: %s", what, d)
			}
		}
		r.Count("twin_set_rounds", 1)
	}
	judge(a, "set A first")
	judge(b, "set B (same contents, other names) after set A in the same process")
	judge(a, "set A again after set B")
	r.Key("twin-sets|%d", nf)
	r.Sample(map[string]interface{}{"kind": "twin-sets", "files": nf})
}
