package checks

import (
	"fmt"
	"math/rand"
	"os"
	"os/exec"
	"path/filepath"
	"sort"
	"strings"

	"github.com/akalin/gopar/par2"

	"verifharness/internal/core"
	"verifharness/internal/ref/par2rw"
	"verifharness/internal/scen"
)

// C01 — PAR2 repair restores every protected file within capacity.
// C03 — PAR2 Verify is truthful.
// Both run the same kind of scenario; each judges its own conclusion.

type c01 struct{ base }
type c03 struct{ base }

type p2ScenParams struct {
	Seed int64  `json:"seed"`
	Kind string `json:"kind"`
	// Fixed scenario (witness of a fixed defect or finding).
	Fixed string `json:"fixed,omitempty"`
}

func init() {
	register(&c01{base{
		id:          "C01",
		level:       lvlExploration,
		rule:        "each case: seeded file set (1..12 files; sizes 1 byte..>16 KiB around multiples of the slice size; random, all-zero, short-period, duplicate-slice and mixed content; names in sub-directories) -> real par2.Create (random goroutine count) -> 0..4 damage operations on a segment model (delete, overwrite, flip, insert, cut, truncate, append, swap, copy-under-other-name) -> loss of a random subset of recovery files -> real par2.Repair on the directory. The model knows which protected slices still lie wholly inside a surviving segment (witnesses): k = slices without witness; blocks = distinct exponents the reference reader finds in the remaining volume files. Success (and byte-identical files) is demanded iff k <= blocks, except when the format-forced system (lowest available exponents x missing slices) is singular by reference elimination, where an error is demanded. A nil error always demands identical files. A key is (content class, slice size, #files, #ops, k, blocks, demanded?); non-trivial = at least one damage op or lost volume. Index base names and set directories may contain '%'; Create's postcondition (index written, blocks 0..n-1 beside it under <base>.*.par2) is checked before any damage. A fifth of the scenarios store surviving recovery files twice under other names; half spell the index path in a non-clean form (/./, //, x/../x).. One set of exactly 32768 slices is part of the quick tier.. Demand computed from the witness set closed under equal slice content; pinned scenarios blocks-40000 (only the highest-numbered recovery file kept) and copy-survives. Pinned scenario files-300 (300 protected files in seven directories). A quarter of the scenarios have a neighbouring recovery set <base>.0sib.par2 and an unreadable <base>2.vol00+01.par2 in the directory.",
		assumptions: append([]string{"recovery files are deleted, never corrupted (corruption is C13)", "garbage bytes are non-zero random bytes; only lower bounds are derived from witnesses, upper bounds from a brute-force content finder"}, commonAssumptions...),
		opts:        core.WorkerOpts{CrashIsViolation: true, WallSeconds: 2400},
	}})
	register(&c03{base{
		id:          "C03",
		level:       lvlExploration,
		rule:        "same scenario generator as C01 with emphasis on damage that leaves every slice findable while files are wrong (insertion at/off slice boundaries, swapped files, lost trailing zeros, appended garbage) and every subset of volume files deleted; real par2.Verify is judged against the model: RepairNeeded()==false iff every file is byte-identical; usable+unusable = total; usable <= slices whose content a brute-force finder locates anywhere in the surviving protected files; usable >= slices of byte-identical files; usable recovery blocks = distinct exponents read by the reference reader from the intact volume files; RepairPossible() == (unusable <= usable blocks). A key is (content, slice size, #files, op kinds, volumes deleted). Further kinds: a recovery file with one flipped bit; an extra recovery file without main packet whose recovery packet (own set ID, valid hash) is mis-sized or has an exponent above 16 bits (refusal or exclusion from the count); recovery files that start (and sometimes end) with packets of a foreign set (every own block still counts). Index base names and set directories may contain '%'. Also: surviving recovery files stored twice (a block counts once), index path spelled in a non-clean form (library and par v).. Kind index-cut (index ends at a packet boundary, no recovery file, damage in the file whose packets were dropped); a quarter of the scenarios also call Verify on a recovery file (refusal or full counts).",
		assumptions: commonAssumptions,
		opts:        core.WorkerOpts{CrashIsViolation: true, WallSeconds: 2400},
	}})
}

var p2FixedScenarios = []string{"rmdir", "zero-pivot-255", "zero-pivot-255-b", "insert-at-boundary", "swap-files", "append-garbage", "lost-trailing-zeros", "k0-no-volumes", "damage-no-volumes", "periodic-J", "blocks-40000", "copy-survives", "files-300"}

func p2Cases(id, tier string, seed int64, n int) []core.Case {
	var cs []core.Case
	r := core.Rng(id, tier, seed)
	for _, f := range p2FixedScenarios {
		cs = append(cs, core.MkCase("fixed-"+f, p2ScenParams{Seed: 1, Kind: "fixed", Fixed: f}))
	}
	for i := 0; i < n; i++ {
		kind := "general"
		switch i % 10 {
		case 3:
			kind = "findable-but-wrong"
		case 5:
			kind = "low-entropy"
		case 7:
			kind = "at-capacity"
		case 9:
			if i%100 == 9 {
				kind = "many-slices"
			}
		case 1:
			if id == "C03" && i%20 == 1 {
				// a recovery file with one damaged packet: Verify either
				// refuses or must still count every intact block
				kind = "corrupt-volume"
			}
			if id == "C03" && i%40 == 31 {
				// the index file ends exactly at a packet boundary (some packets are
				// missing, the rest are whole), no recovery file is left, and one
				// protected file is damaged: Verify refuses or sees the damage
				kind = "index-cut"
			}
			if id == "C03" && i%40 == 21 {
				// a recovery file that starts with packets of another recovery
				// set (two downloads concatenated): every block of ours still counts
				kind = "mixed-volume"
			}
			if id == "C03" && i%20 == 11 && i%40 != 31 {
				// an extra recovery file with valid checksums and the set's own ID
				// whose recovery packet is not a block of this set
				kind = "bogus-volume"
			}
		}
		cs = append(cs, core.MkCase(fmt.Sprintf("%s-%d", kind, i), p2ScenParams{Seed: r.Int63(), Kind: kind}))
	}
	// the format's limit: exactly 32768 slices (one set in the quick tier)
	for i := 0; i < map[string]int{"quick": 1, "thorough": 3}[tier]; i++ {
		cs = append(cs, core.MkCase(fmt.Sprintf("limit-32768-%d", i), p2ScenParams{Seed: r.Int63(), Kind: "limit"}))
	}
	return cs
}

func (c *c01) Cases(tier string, seed int64) []core.Case {
	return p2Cases("C01", tier, seed, map[string]int{"quick": 900, "thorough": 60000}[tier])
}
func (c *c03) Cases(tier string, seed int64) []core.Case {
	return p2Cases("C03", tier, seed, map[string]int{"quick": 900, "thorough": 60000}[tier])
}

// p2Scenario is a built scenario ready for Verify/Repair.
type p2Scenario struct {
	env               *p2env
	g                 int
	ops               []scen.Op
	volsLost          int
	volsTotal         int
	wit               map[scen.SliceRef]bool
	findable          map[scen.SliceRef]bool
	skip              map[scen.SliceRef]bool
	exps              []int
	total             int
	corruptVolume     string
	symlinkedVolumes  int
	duplicatedVolumes int
	siblingSets       int
	idxSpelled        string
	identical         []bool
	nIdentical        int
	identSlices       int
}

func fixedSet(name string) (scen.Set, func(*scen.State, *rand.Rand) []scen.Op, string) {
	rng := rand.New(rand.NewSource(42))
	two := scen.Set{SliceSize: 16, Blocks: 2, Content: "random", Files: []scen.File{
		{Name: "a.bin", Data: scen.GenData(rng, "random", 64, 16)},
		{Name: "b.bin", Data: scen.GenData(rng, "random", 64, 16)},
	}}
	switch name {
	case "insert-at-boundary":
		return two, func(st *scen.State, r *rand.Rand) []scen.Op {
			return []scen.Op{{Kind: "insert", A: 0, Pos: 16, G: []byte{7, 8, 9}}}
		}, "keep"
	case "swap-files":
		return two, func(st *scen.State, r *rand.Rand) []scen.Op { return []scen.Op{{Kind: "swap", A: 0, B: 1}} }, "keep"
	case "append-garbage":
		return two, func(st *scen.State, r *rand.Rand) []scen.Op {
			return []scen.Op{{Kind: "append", A: 1, G: []byte{1, 2, 3}}}
		}, "keep"
	case "lost-trailing-zeros":
		s := scen.Set{SliceSize: 16, Blocks: 2, Content: "mixed", Files: []scen.File{{Name: "z.bin", Data: append(scen.GenData(rng, "random", 40, 16), 0, 0, 0, 0)}}}
		return s, func(st *scen.State, r *rand.Rand) []scen.Op { return []scen.Op{{Kind: "truncate", A: 0, Pos: 42}} }, "keep"
	case "k0-no-volumes":
		return two, func(st *scen.State, r *rand.Rand) []scen.Op {
			return []scen.Op{{Kind: "append", A: 0, G: []byte{9, 9}}}
		}, "none"
	case "damage-no-volumes":
		return two, func(st *scen.State, r *rand.Rand) []scen.Op {
			return []scen.Op{{Kind: "overwrite", A: 0, Pos: 3, G: []byte{0x55}}}
		}, "none"
	case "zero-pivot-255", "zero-pivot-255-b":
		// Constants 2^n of slices 1 and 129 have n = 2 and 259 (difference 257),
		// so with recovery exponents 0 and 255 their 2x2 block is singular:
		// elimination meets a zero pivot and must swap in a later row. With a
		// third missing slice and exponent 256 the 3x3 system is non-singular.
		s := scen.Set{SliceSize: 4, Blocks: 258, Content: "random", Files: []scen.File{{Name: "z.bin", Data: scen.GenData(rng, "random", 4*150+2, 4)}}}
		third := 40
		if name == "zero-pivot-255-b" {
			third = 140
		}
		return s, func(st *scen.State, r *rand.Rand) []scen.Op {
			return []scen.Op{
				{Kind: "overwrite", A: 0, Pos: 4 * 1, G: []byte{1, 2, 3, 4}},
				{Kind: "overwrite", A: 0, Pos: 4 * 129, G: []byte{5, 6, 7, 8}},
				{Kind: "overwrite", A: 0, Pos: 4 * third, G: []byte{9, 10, 11, 12}},
			}
		}, "keep-0-255-256"
	case "blocks-40000":
		// more recovery blocks than there can be slices (exponents up to 39999);
		// only the highest-numbered recovery file survives
		s := scen.Set{SliceSize: 4, Blocks: 40000, Content: "random", Files: []scen.File{{Name: "tiny.bin", Data: scen.GenData(rng, "random", 11, 4)}}}
		return s, func(st *scen.State, r *rand.Rand) []scen.Op {
			return []scen.Op{{Kind: "overwrite", A: 0, Pos: 5, G: []byte{0x7f}}}
		}, "keep-highest"
	case "copy-survives":
		// c.bin is an exact copy of a.bin: when a.bin is deleted its slices live
		// on in the (completely intact) copy and no recovery block is needed
		s := scen.Set{SliceSize: 16, Blocks: 2, Content: "random", Files: []scen.File{
			{Name: "a.bin", Data: append([]byte(nil), two.Files[0].Data...)},
			{Name: "b.bin", Data: append([]byte(nil), two.Files[1].Data...)},
			{Name: "c.bin", Data: append([]byte(nil), two.Files[0].Data...)},
		}}
		return s, func(st *scen.State, r *rand.Rand) []scen.Op { return []scen.Op{{Kind: "delete", A: 0}} }, "none"
	case "files-300":
		// more protected files than fit one byte: 300 small files in a few
		// directories, three of them damaged or deleted
		s := scen.Set{SliceSize: 8, Blocks: 6, Content: "random"}
		for i := 0; i < 300; i++ {
			s.Files = append(s.Files, scen.File{Name: fmt.Sprintf("d%d/f%03d.bin", i%7, i), Data: scen.GenData(rng, "random", 3+i%14, 8)})
		}
		return s, func(st *scen.State, r *rand.Rand) []scen.Op {
			return []scen.Op{{Kind: "delete", A: 17}, {Kind: "overwrite", A: 256, Pos: 1, G: []byte{0x33}}, {Kind: "delete", A: 299}}
		}, "keep"
	case "rmdir":
		s := scen.Set{SliceSize: 8, Blocks: 6, Content: "random", Files: []scen.File{
			{Name: "a.bin", Data: scen.GenData(rng, "random", 24, 8)},
			{Name: "sub/deep/b.bin", Data: scen.GenData(rng, "random", 30, 8)},
		}}
		return s, func(st *scen.State, r *rand.Rand) []scen.Op { return []scen.Op{{Kind: "delete", A: 1}} }, "keep"
	case "periodic-J":
		data := make([]byte, 17)
		for i := range data {
			data[i] = "abc"[i%3]
		}
		s := scen.Set{SliceSize: 4, Blocks: 1, Content: "period", Files: []scen.File{{Name: "p.txt", Data: data}}}
		return s, func(st *scen.State, r *rand.Rand) []scen.Op { return []scen.Op{{Kind: "cut", A: 0, Pos: 8, Len: 1}} }, "keep"
	}
	panic("unknown fixed scenario " + name)
}

// buildP2Scenario creates the set, damages it and computes the model
// facts. It returns nil and records the problem in r on failure.
func buildP2Scenario(r *core.R, p p2ScenParams) *p2Scenario {
	rng := rand.New(rand.NewSource(p.Seed))
	var set scen.Set
	var fixedOps func(*scen.State, *rand.Rand) []scen.Op
	volMode := ""
	switch p.Kind {
	case "fixed":
		set, fixedOps, volMode = fixedSet(p.Fixed)
	case "low-entropy":
		set = genP2Set(rng, 5, []string{"zeros", "period", "dupslices", "mixed"}, false)
	case "many-slices":
		slice := []int{4, 8}[rng.Intn(2)]
		set = scen.Set{SliceSize: slice, Blocks: 1 + rng.Intn(8), Content: "random"}
		for i := 0; i < 2; i++ {
			set.Files = append(set.Files, scen.File{Name: scen.GenName(rng, i, true, true), Data: scen.GenData(rng, "random", (150+rng.Intn(900))*slice-rng.Intn(slice), slice)})
		}
	case "limit":
		set = scen.Set{SliceSize: 4, Blocks: 4, Content: "random", Files: []scen.File{{Name: "big.bin", Data: scen.GenData(rng, "random", 32768*4-rng.Intn(4), 4)}}}
	default:
		set = genP2Set(rng, 12, scen.ContentKinds, true)
	}
	g := []int{1, 2, 3, 7, 16, 64}[rng.Intn(6)]
	// index base names include ones ending in characters of ".par2"
	baseName := []string{"set", "data", "backup", "set2", "extra.", "par2", "a.b", "vol", "p", "backup 100%", "my%20set", "%d%s%"}[rng.Intn(12)]
	if p.Kind == "fixed" {
		baseName = "set"
	}
	env, err := newP2Env(set, baseName, g)
	if err != nil {
		if env != nil {
			env.close()
		}
		r.Violate("create-failed", "%v (set %v)", err, setSummary(set))
		return nil
	}
	sc := &p2Scenario{env: env, g: g}
	st := env.st
	// damage
	switch {
	case fixedOps != nil:
		sc.ops = fixedOps(st, rng)
	case p.Kind == "findable-but-wrong":
		n := 1 + rng.Intn(2)
		for i := 0; i < n; i++ {
			a := rng.Intn(len(st.Cur))
			ln := st.Len(a)
			s := set.SliceSize
			var op scen.Op
			switch rng.Intn(5) {
			case 0: // insertion exactly at a slice boundary
				op = scen.Op{Kind: "insert", A: a, Pos: (rng.Intn(ln/s+1) * s), G: scen.Garbage(rng, 1+rng.Intn(2*s))}
				if op.Pos > ln {
					op.Pos = ln
				}
			case 1:
				if len(st.Cur) > 1 {
					b := (a + 1 + rng.Intn(len(st.Cur)-1)) % len(st.Cur)
					op = scen.Op{Kind: "swap", A: a, B: b}
				} else {
					op = scen.Op{Kind: "append", A: a, G: scen.Garbage(rng, 1+rng.Intn(s))}
				}
			case 2:
				op = scen.Op{Kind: "append", A: a, G: scen.Garbage(rng, 1+rng.Intn(2*s))}
			case 3:
				op = scen.Op{Kind: "insert", A: a, Pos: 0, G: scen.Garbage(rng, 1+rng.Intn(s))}
			default:
				op = scen.Op{Kind: "insert", A: a, Pos: rng.Intn(ln + 1), G: scen.Garbage(rng, 1+rng.Intn(s))}
			}
			sc.ops = append(sc.ops, op)
		}
	default:
		n := rng.Intn(5)
		if p.Kind == "limit" || p.Kind == "many-slices" {
			n = 1 + rng.Intn(3)
		}
		for i := 0; i < n; i++ {
			op := scen.RandomOp(rng, st)
			if p.Kind == "limit" {
				// damage that stays within the four blocks whatever else happens:
				// the set at the format's limit must be repairable
				if i > 0 {
					break
				}
				op = scen.Op{Kind: "overwrite", A: 0, Pos: rng.Intn(100000), G: scen.Garbage(rng, 3)}
			}
			st.Apply(op)
			sc.ops = append(sc.ops, op)
		}
		sc.ops = nil // already applied
	}
	for _, op := range sc.ops {
		st.Apply(op)
	}
	if p.Kind == "index-cut" {
		// every file carries some damage, so whichever file's packets the cut
		// removes, a damaged file is affected
		for a := range st.Cur {
			if st.Cur[a].Present && st.Len(a) > 0 && st.Identical(a) {
				st.Apply(scen.Op{Kind: "overwrite", A: a, Pos: rng.Intn(st.Len(a)), G: []byte{byte(0x80 + rng.Intn(100))}})
			}
		}
	}
	env.sync()
	// lose recovery files
	vols := env.volumeFiles()
	sc.volsTotal = len(vols)
	switch {
	case volMode == "keep", p.Kind == "limit":
	case volMode == "keep-0-255-256":
		// keep only the volumes holding exponents 0 and 255.. (gopar names them
		// vol00+01 and vol255+03); everything between is lost
		for _, v := range vols {
			var a, b int
			bn := filepath.Base(v)
			if i := indexFold(bn, ".vol"); i >= 0 {
				fmt.Sscanf(bn[i:], ".vol%d+%d.par2", &a, &b)
			}
			if a != 0 && a != 255 {
				os.Remove(v)
				sc.volsLost++
			}
		}
	case volMode == "none":
		for _, v := range vols {
			os.Remove(v)
			sc.volsLost++
		}
	case volMode == "keep-highest":
		// file names sort by first exponent only up to two digits: pick the
		// file holding the largest exponent by reading them
		best, bestExp := "", -1
		for _, v := range vols {
			if b, err := os.ReadFile(v); err == nil {
				for _, pk := range par2rw.ParseLenient(b) {
					if pk.Type == par2rw.TypeRecv {
						if rv, err := par2rw.DecodeRecv(pk.Body); err == nil && int(rv.Exp) > bestExp {
							bestExp, best = int(rv.Exp), v
						}
					}
				}
			}
		}
		for _, v := range vols {
			if v != best {
				os.Remove(v)
				sc.volsLost++
			}
		}
	case p.Kind == "corrupt-volume":
		if len(vols) > 0 {
			v := vols[rng.Intn(len(vols))]
			b, _ := os.ReadFile(v)
			if len(b) > 0 {
				// flip one bit somewhere in the file (any packet: creator, main,
				// description, checksum or recovery)
				b[rng.Intn(len(b))] ^= 1 << uint(rng.Intn(8))
				os.WriteFile(v, b, 0644)
				sc.corruptVolume = filepath.Base(v)
			}
		}
	case p.Kind == "index-cut":
		for _, v := range vols {
			os.Remove(v)
			sc.volsLost++
		}
		if b, err := os.ReadFile(env.idx); err == nil {
			if pk, err := par2rw.ParseStrict(b); err == nil && len(pk) > 2 {
				cut := pk[1+rng.Intn(len(pk)-1)].Offset
				if rng.Intn(3) != 0 {
					// cut right before the last description or checksum packet, and
					// make the file that packet belongs to the only damaged one
					for k := len(pk) - 1; k > 0; k-- {
						if (pk[k].Type == par2rw.TypeFileDesc || pk[k].Type == par2rw.TypeIFSC) && len(pk[k].Body) >= 16 {
							cut = pk[k].Offset
							var id [16]byte
							copy(id[:], pk[k].Body[:16])
							for _, rf := range env.ref.Files {
								if rf.ID == id {
									for a, f := range env.set.Files {
										if f.Name == rf.Name {
											// restore every other file, damage this one
											for o := range st.Cur {
												st.Cur[o] = scen.NewState(env.set).Cur[o]
											}
											if st.Len(a) > 0 {
												st.Apply(scen.Op{Kind: "overwrite", A: a, Pos: rng.Intn(st.Len(a)), G: []byte{byte(0x80 + rng.Intn(100))}})
											} else {
												st.Apply(scen.Op{Kind: "append", A: a, G: []byte{1}})
											}
											env.sync()
										}
									}
								}
							}
							break
						}
					}
				}
				os.WriteFile(env.idx, b[:cut], 0644)
				sc.corruptVolume = fmt.Sprintf("index cut at %d of %d", cut, len(b))
			}
		}
	case p.Kind == "mixed-volume":
		foreign := par2rw.BuildSet(env.set.SliceSize, []par2rw.InFile{{Name: "someone else's.bin", Data: scen.Garbage(rng, 2*env.set.SliceSize+3)}})
		fpk := append([]par2rw.Packet{}, foreign.Critical()...)
		fpk = append(fpk, foreign.RecvPacket(0), foreign.RecvPacket(1), foreign.CreatorPacket("another client"))
		head := par2rw.Serialize(fpk)
		for i, v := range vols {
			if i == 0 || rng.Intn(2) == 0 {
				if b, err := os.ReadFile(v); err == nil {
					if rng.Intn(3) == 0 {
						// foreign packets first AND last
						b = append(b, head...)
					}
					os.WriteFile(v, append(append([]byte(nil), head...), b...), 0644)
				}
			}
		}
	case p.Kind == "bogus-volume":
		// One real volume is lost; in its place there is a file without a main
		// packet whose recovery packet carries the set ID and a valid packet
		// hash but is no block of this set: wrong size, or an exponent beyond
		// the 16-bit range that aliases the lost block.
		lostExp := uint32(0)
		if len(vols) > 0 {
			v := vols[rng.Intn(len(vols))]
			if b, err := os.ReadFile(v); err == nil {
				for _, pk := range par2rw.ParseLenient(b) {
					if pk.Type == par2rw.TypeRecv {
						if rv, err := par2rw.DecodeRecv(pk.Body); err == nil {
							lostExp = rv.Exp
							break
						}
					}
				}
			}
			os.Remove(v)
			sc.volsLost++
		}
		s := env.set.SliceSize
		var rv par2rw.Recv
		switch rng.Intn(4) {
		case 0:
			rv = par2rw.Recv{Exp: lostExp, Data: scen.Garbage(rng, s+4)}
		case 1:
			rv = par2rw.Recv{Exp: lostExp, Data: scen.Garbage(rng, maxi(s-4, 0))}
		case 2:
			rv = par2rw.Recv{Exp: 0x10000 + lostExp, Data: scen.Garbage(rng, s)}
		default:
			rv = par2rw.Recv{Exp: 0xffff0000 | lostExp, Data: scen.Garbage(rng, s)}
		}
		pk := par2rw.Packet{SetID: env.ref.SetID, Type: par2rw.TypeRecv, Body: rv.Body()}
		name := strings.TrimSuffix(filepath.Base(env.idx), ".par2") + ".vol900+01.par2"
		// (a creator packet makes it a complete file as far as readers care)
		os.WriteFile(filepath.Join(env.dir, name), par2rw.Serialize([]par2rw.Packet{env.ref.CreatorPacket("some other client"), pk}), 0644)
		sc.corruptVolume = name
	case p.Kind == "at-capacity":
		// keep exactly k blocks if possible (volumes hold 1,2,4,.. blocks)
		k := st.Set.TotalSlices() - len(st.Witnessed())
		remaining := k
		for i := len(vols) - 1; i >= 0; i-- {
			n := volBlocks(vols[i])
			if n > 0 && n <= remaining {
				remaining -= n
			} else {
				os.Remove(vols[i])
				sc.volsLost++
			}
		}
	default:
		mode := rng.Intn(4)
		for _, v := range vols {
			if (mode == 0 && rng.Intn(2) == 0) || (mode == 1 && rng.Intn(4) == 0) || mode == 2 && rng.Intn(8) != 0 {
				os.Remove(v)
				sc.volsLost++
			}
		}
	}
	// Some surviving recovery files are reached through symbolic links.
	if p.Kind != "fixed" && rng.Intn(6) == 0 {
		for i, v := range env.volumeFiles() {
			if rng.Intn(2) == 0 {
				real := filepath.Join(env.root, fmt.Sprintf("moved-vol-%d", i))
				if os.Rename(v, real) == nil {
					os.Symlink(real, v)
					sc.symlinkedVolumes++
				}
			}
		}
	}
	// Some surviving recovery files exist twice (a copy under another name, or
	// what an earlier Create with another block count leaves behind): a block
	// is one block however often it is stored.
	if p.Kind != "fixed" && rng.Intn(5) == 0 {
		base := strings.TrimSuffix(filepath.Base(env.idx), ".par2")
		for i, v := range env.volumeFiles() {
			if rng.Intn(2) == 0 {
				if b, err := os.ReadFile(v); err == nil {
					os.WriteFile(filepath.Join(env.dir, fmt.Sprintf("%s.copy %d.par2", base, i)), b, 0644)
					sc.duplicatedVolumes++
				}
			}
		}
	}
	// Neighbours in the same directory: another recovery set whose base name
	// extends this one's with a dot (its files match <base>.*.par2 and sort
	// before the volumes), and an unreadable file of a set whose name merely
	// starts with the same letters. Neither is any of this set's business.
	if srng := rand.New(rand.NewSource(p.Seed ^ 0x51b1)); p.Kind != "fixed" && srng.Intn(4) == 0 {
		base := strings.TrimSuffix(filepath.Base(env.idx), ".par2")
		sib := filepath.Join(env.dir, "sibling-data.bin")
		if os.WriteFile(sib, scen.Garbage(srng, 50+srng.Intn(300)), 0644) == nil {
			if par2.Create(filepath.Join(env.dir, base+".0sib.par2"), []string{sib}, par2.CreateOptions{SliceByteCount: 16, NumParityShards: 2, NumGoroutines: 1}) == nil {
				sc.siblingSets++
			}
		}
		os.WriteFile(filepath.Join(env.dir, base+"2.vol00+01.par2"), scen.Garbage(srng, 700), 0644)
	}
	// The index path as the caller spells it: the same file, not in clean form.
	sc.idxSpelled = env.idx
	if p.Kind != "fixed" {
		d, b := filepath.Dir(env.idx), filepath.Base(env.idx)
		switch rng.Intn(6) {
		case 0:
			sc.idxSpelled = d + "/./" + b
		case 1:
			sc.idxSpelled = d + "//" + b
		case 2:
			sc.idxSpelled = d + "/../" + filepath.Base(d) + "/" + b
		}
	}
	// slices that survive by construction, closed under equal slice content
	// (an identical slice elsewhere - a copy of the file, a shared header -
	// keeps a slice alive)
	sc.wit = st.WitnessedByContent()
	sc.findable, sc.skip = st.Find()
	sc.exps = env.availableExponents()
	sc.total = set.TotalSlices()
	for i := range set.Files {
		id := st.Identical(i)
		sc.identical = append(sc.identical, id)
		if id {
			sc.nIdentical++
			sc.identSlices += st.NumSlices(i)
		}
	}
	// harness self-check: a witnessed slice is always findable
	for w := range sc.wit {
		if !sc.findable[w] {
			r.Violate("harness-model-error", "witnessed slice %v not found by the brute-force finder (ops %v)", w, st.Log)
		}
	}
	return sc
}

func volBlocks(path string) int {
	// name pattern ...volNN+MM.par2
	var a, b int
	base := path
	for i := len(base) - 1; i >= 0; i-- {
		if base[i] == '/' {
			base = base[i+1:]
			break
		}
	}
	i := indexFold(base, ".vol")
	if i < 0 {
		return 0
	}
	if _, err := fmt.Sscanf(base[i:], ".vol%d+%d.par2", &a, &b); err != nil {
		return 0
	}
	return b
}

func (sc *p2Scenario) opKinds() string {
	var ks []string
	for _, l := range sc.env.st.Log {
		k := l
		for i := 0; i < len(l); i++ {
			if l[i] == '(' {
				k = l[:i]
				break
			}
		}
		ks = append(ks, k)
	}
	sort.Strings(ks)
	return fmt.Sprint(ks)
}

func (sc *p2Scenario) describe() map[string]interface{} {
	m := setSummary(sc.env.set)
	m["ops"] = sc.env.st.Log
	m["volumes_lost"] = fmt.Sprintf("%d/%d", sc.volsLost, sc.volsTotal)
	m["available_exponents"] = len(sc.exps)
	m["witnessed"] = len(sc.wit)
	m["findable"] = len(sc.findable)
	m["skip_on_hit"] = len(sc.skip)
	m["goroutines"] = sc.g
	if sc.corruptVolume != "" {
		m["corrupt_volume"] = sc.corruptVolume
	}
	if sc.symlinkedVolumes > 0 {
		m["symlinked_volumes"] = sc.symlinkedVolumes
	}
	if sc.siblingSets > 0 {
		m["sibling_sets_in_directory"] = sc.siblingSets
	}
	if sc.duplicatedVolumes > 0 {
		m["duplicated_volumes"] = sc.duplicatedVolumes
	}
	if sc.idxSpelled != sc.env.idx {
		m["index_spelled"] = sc.idxSpelled
	}
	return m
}

func missingOf(all []scen.SliceRef, have map[scen.SliceRef]bool, order map[scen.SliceRef]int) []scen.SliceRef {
	var m []scen.SliceRef
	for _, s := range all {
		if !have[s] {
			m = append(m, s)
		}
	}
	sort.Slice(m, func(i, j int) bool { return order[m[i]] < order[m[j]] })
	return m
}

const sigJ = "skip-on-hit-scan-steps-over-surviving-slice"

func (c *c01) Run(cs core.Case) core.Result {
	var p p2ScenParams
	core.Decode(cs, &p)
	r := core.NewR(cs)
	sc := buildP2Scenario(r, p)
	if sc == nil {
		return r.Done()
	}
	defer sc.env.close()
	env := sc.env
	k := sc.total - len(sc.wit)
	blocks := len(sc.exps)
	demanded := k <= blocks
	var res par2.RepairResult
	var err error
	dc := p.Seed%3 == 0
	core.Note("C01 Repair %v", sc.describe())
	if pi := core.Protect(func() {
		res, err = par2.Repair(sc.idxSpelled, par2.RepairOptions{NumGoroutines: sc.g, DoubleCheck: dc})
	}); pi != nil {
		r.Violate(core.CrashSig("par2.Repair", pi.Frame, pi.Msg), "Repair panicked: %s\n%v\n%s", pi.Msg, sc.describe(), pi.Stack)
		return r.Done()
	}
	_ = res
	wrong := env.wrongFiles()
	r.Count("repairs", 1)
	if err == nil {
		r.Count("repair_ok", 1)
		if len(wrong) > 0 {
			r.Violate("repair-nil-but-files-differ", "Repair returned nil but %v differ from the originals; %v", wrong, sc.describe())
		}
	} else {
		r.Count("repair_err", 1)
	}
	if demanded {
		r.Count("demanded", 1)
		if err != nil {
			all := env.st.AllSlices()
			mE := missingOf(all, sc.skip, env.order)
			switch {
			case len(mE) > blocks:
				// The property's premise holds (witnesses), yet a skip-on-hit
				// scanner provably finds fewer slices: finding J.
				r.Violate(sigJ, "premise holds (k=%d <= %d blocks by witnesses) but Repair failed: %v; an independent skip-on-hit scan over the brute-force match table finds only %d of %d slices (%d witnessed), so %d blocks would be needed; %v", k, blocks, err, len(sc.skip), sc.total, len(sc.wit), len(mE), sc.describe())
			case env.forcedSingular(mE, sc.exps):
				r.Count("singular_forced_systems", 1)
			default:
				r.Violate("repair-failed-within-capacity", "k=%d slices without witness, %d recovery blocks available (exponents %v), forced system non-singular by reference, but Repair failed: %v; %v", k, blocks, head16(sc.exps), err, sc.describe())
			}
		}
	} else {
		r.Count("not_demanded", 1)
	}
	nontrivial := len(env.st.Log) > 0 || sc.volsLost > 0
	if nontrivial {
		r.Key("%s|s=%d|f=%d|ops=%s|k=%d|b=%d|d=%v", env.set.Content, env.set.SliceSize, len(env.set.Files), sc.opKinds(), k, blocks, demanded)
	}
	d := sc.describe()
	d["k"] = k
	d["demanded"] = demanded
	d["repair_error"] = fmt.Sprint(err)
	r.Sample(d)
	return r.Done()
}

func head16(a []int) []int {
	if len(a) > 16 {
		return a[:16]
	}
	return a
}

func (c *c03) Run(cs core.Case) core.Result {
	var p p2ScenParams
	core.Decode(cs, &p)
	r := core.NewR(cs)
	sc := buildP2Scenario(r, p)
	if sc == nil {
		return r.Done()
	}
	defer sc.env.close()
	env := sc.env
	var res par2.VerifyResult
	var err error
	core.Note("C03 Verify %v", sc.describe())
	before := scen.Snapshot(env.dir)
	if pi := core.Protect(func() {
		res, err = par2.Verify(sc.idxSpelled, par2.VerifyOptions{NumGoroutines: sc.g})
	}); pi != nil {
		r.Violate(core.CrashSig("par2.Verify", pi.Frame, pi.Msg), "Verify panicked: %s\n%v", pi.Msg, sc.describe())
		return r.Done()
	}
	if d := scen.DiffSnap(before, scen.Snapshot(env.dir)); len(d) > 0 {
		r.Violate("verify-modified-directory", "Verify changed the directory: %v", d)
	}
	r.Count("verifies", 1)
	if err != nil {
		if sc.corruptVolume != "" {
			// refusing a damaged recovery file is legitimate (C13 judges that side)
			r.Count("verify_refused_corrupt_volume", 1)
			r.SetAdd("refusal_reasons", p.Kind+": "+err.Error())
			r.Key("corrupt-volume-refused|%s", sc.opKinds())
			return r.Done()
		}
		r.Violate("verify-error-on-intact-archive", "Verify returned %v although index and remaining recovery files are untouched; %v", err, sc.describe())
		return r.Done()
	}
	if sc.corruptVolume != "" {
		r.Count("verify_result_with_corrupt_volume", 1)
	}
	// Pointed at one of the recovery files instead of the index file, Verify
	// refuses or gives the same truthful counts.
	if vf := env.volumeFiles(); len(vf) > 0 && p.Seed%4 == 0 && sc.corruptVolume == "" {
		var vres par2.VerifyResult
		var verr2 error
		v := vf[int(p.Seed>>3)%len(vf)]
		if pi := core.Protect(func() { vres, verr2 = par2.Verify(v, par2.VerifyOptions{NumGoroutines: sc.g}) }); pi != nil {
			r.Violate(core.CrashSig("par2.Verify", pi.Frame, pi.Msg), "Verify(%s) panicked: %s", filepath.Base(v), pi.Msg)
		} else if verr2 == nil {
			r.Count("verify_via_volume_file_answered", 1)
			if vres.ShardCounts.UsableParityShardCount != len(sc.exps) {
				r.Violate("usable-recovery-blocks-wrong", "Verify(%q) - a recovery file given as the entry point - counts %d usable recovery blocks, %d distinct intact blocks are stored beside it; %v", filepath.Base(v), vres.ShardCounts.UsableParityShardCount, len(sc.exps), sc.describe())
			}
		} else {
			r.Count("verify_via_volume_file_refused", 1)
		}
	}
	sh := res.ShardCounts
	desc := func() string { return fmt.Sprintf("counts=%+v; %v", sh, sc.describe()) }
	allIdentical := sc.nIdentical == len(env.set.Files)
	if !sh.RepairNeeded() && !allIdentical {
		r.Violate("verify-clean-but-files-differ", "RepairNeeded()==false while %v differ; %s", env.wrongFiles(), desc())
	}
	if sh.RepairNeeded() && allIdentical {
		r.Violate("verify-needs-repair-on-intact-set", "RepairNeeded()==true although every protected file is byte-identical; %s", desc())
	}
	if sh.UsableDataShardCount+sh.UnusableDataShardCount != sc.total {
		r.Violate("counts-do-not-add-up", "usable+unusable=%d, total slices %d; %s", sh.UsableDataShardCount+sh.UnusableDataShardCount, sc.total, desc())
	}
	if sh.UsableDataShardCount > len(sc.findable) {
		r.Violate("usable-exceeds-findable", "UsableDataShardCount=%d but only %d protected slices have their content anywhere in the surviving protected files; %s", sh.UsableDataShardCount, len(sc.findable), desc())
	}
	if sh.UsableDataShardCount < sc.identSlices {
		r.Violate("missed-slice-of-undamaged-file", "UsableDataShardCount=%d < %d slices of byte-identical files; %s", sh.UsableDataShardCount, sc.identSlices, desc())
	}
	if sh.UsableParityShardCount != len(sc.exps) {
		r.Violate("usable-recovery-blocks-wrong", "UsableParityShardCount=%d, reference reader finds %d distinct intact blocks %v in %d volume files; %s", sh.UsableParityShardCount, len(sc.exps), head16(sc.exps), sc.volsTotal-sc.volsLost, desc())
	}
	if sh.RepairPossible() != (sh.UnusableDataShardCount <= sh.UsableParityShardCount) {
		r.Violate("repair-possible-inconsistent", "RepairPossible()=%v with unusable=%d usable blocks=%d; %s", sh.RepairPossible(), sh.UnusableDataShardCount, sh.UsableParityShardCount, desc())
	}
	if len(env.st.Log) > 0 || sc.volsLost > 0 {
		r.Key("%s|s=%d|f=%d|ops=%s|lost=%d/%d", env.set.Content, env.set.SliceSize, len(env.set.Files), sc.opKinds(), sc.volsLost, sc.volsTotal)
	}
	if !allIdentical && sh.UnusableDataShardCount == 0 {
		r.Count("all_slices_found_but_files_wrong", 1)
	}
	// What the command line tells the user about the same state.
	if parExe := os.Getenv("VW_PAR_EXE"); parExe != "" && (p.Seed%7 == 0 || p.Kind == "fixed" || (!allIdentical && sh.UnusableDataShardCount == 0 && p.Seed%2 == 0)) {
		cmd := exec.Command(parExe, "-g", "2", "v", sc.idxSpelled)
		out, _ := cmd.CombinedOutput()
		status := cmd.ProcessState.ExitCode()
		want := 0
		if !allIdentical {
			want = 1
			if sc.total-len(sc.findable) > len(sc.exps) {
				want = 2 // even a perfect scanner needs more blocks than there are
			} else if sh.UnusableDataShardCount > len(sc.exps) {
				want = status // the scanner's own shortfall (see C01/C16) is not judged here
			}
		}
		r.Count("cli_verify_runs", 1)
		if status != want {
			r.Violate(fmt.Sprintf("cli-verify-status|want=%d|got=%d", want, status), "par v exits %d, expected %d (all files identical: %v; counts %+v); %v; output tail: %s", status, want, allIdentical, sh, sc.describe(), tailStr(string(out), 300))
		}
	}
	if allIdentical {
		r.Count("intact_sets", 1)
	}
	d := sc.describe()
	d["counts"] = fmt.Sprintf("%+v", sh)
	d["repair_needed"] = sh.RepairNeeded()
	r.Sample(d)
	return r.Done()
}
