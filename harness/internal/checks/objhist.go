package checks

import (
	"fmt"
	"math/rand"
	"os"
	"path/filepath"

	"github.com/akalin/gopar/par1"
	"github.com/akalin/gopar/par2"

	"verifharness/internal/core"
)

// Histories on ONE encoder / decoder object. The exported step-wise API
// (NewEncoder/LoadFileData/ComputeParityData/Write, NewDecoder/LoadFileData/
// LoadParityData/ShardCounts|FileCounts/Repair) is what Create, Verify and
// Repair are made of; a program that drives it directly may call a step
// again after a failure or after the files changed. Whatever the object
// answers then must be as truthful as the answer of a fresh object: an error
// is fine, a nil result obliges.

// encoderHistories lists the histories p2CreateVia / p1CreateVia know.
var encoderHistories = []string{"retry-after-missing-input", "reload-after-files-changed", "reload-unchanged"}

// p2CreateVia creates the set through one par2.Encoder object with the given
// history. It returns the history's final error (nil = the set was written).
// refused is true when the object declined the repeated step with an error of
// its own (that is an acceptable answer; nothing may be concluded then).
func p2CreateVia(hist string, rng *rand.Rand, idx string, paths []string, slice, blocks, g int) (err error, refused bool, pi *core.PanicInfo) {
	abs := make([]string, len(paths))
	for i, p := range paths {
		abs[i], _ = filepath.Abs(p)
	}
	absIdx, _ := filepath.Abs(idx)
	pi = core.Protect(func() {
		var enc *par2.Encoder
		enc, err = par2.NewEncoder(par2.DoNothingCreateDelegate{}, filepath.Dir(absIdx), abs, slice, blocks, g)
		if err != nil {
			return
		}
		switch hist {
		case "retry-after-missing-input":
			// an input other than the first is away during the first load
			k := len(abs) - 1
			if len(abs) > 2 {
				k = 1 + rng.Intn(len(abs)-1)
			}
			hidden := filepath.Join(filepath.Dir(filepath.Dir(absIdx)), fmt.Sprintf("hidden-by-the-harness-%d", k))
			if os.Rename(abs[k], hidden) != nil {
				err = fmt.Errorf("harness: cannot hide %s", abs[k])
				return
			}
			first := enc.LoadFileData()
			os.Rename(hidden, abs[k])
			if first == nil && len(abs) > 0 {
				err = fmt.Errorf("LoadFileData returned nil although %s did not exist", filepath.Base(abs[k]))
				return
			}
		case "reload-after-files-changed":
			// the first load sees other (longer, and one shorter) contents
			saved := make([][]byte, len(abs))
			for i, p := range abs {
				saved[i], _ = os.ReadFile(p)
				alt := append(append([]byte("other content "), saved[i]...), make([]byte, 1+rng.Intn(3*slice))...)
				if i == len(abs)-1 && len(saved[i]) > 1 {
					alt = saved[i][:len(saved[i])/2]
				}
				os.WriteFile(p, alt, 0644)
			}
			first := enc.LoadFileData()
			for i, p := range abs {
				os.WriteFile(p, saved[i], 0644)
			}
			_ = first
		case "reload-unchanged":
			if e := enc.LoadFileData(); e != nil {
				err = e
				return
			}
		}
		if e := enc.LoadFileData(); e != nil {
			err, refused = e, true
			return
		}
		if e := enc.ComputeParityData(); e != nil {
			err = e
			return
		}
		err = enc.Write(idx)
	})
	return
}

// p1CreateVia is the PAR1 counterpart.
func p1CreateVia(hist string, rng *rand.Rand, idx string, paths []string, nv int) (err error, refused bool, pi *core.PanicInfo) {
	pi = core.Protect(func() {
		var enc *par1.Encoder
		enc, err = par1.NewEncoder(par1.DoNothingCreateDelegate{}, paths, nv)
		if err != nil {
			return
		}
		switch hist {
		case "retry-after-missing-input":
			k := len(paths) - 1
			if len(paths) > 2 {
				k = 1 + rng.Intn(len(paths)-1)
			}
			absIdx, _ := filepath.Abs(idx)
			hidden := filepath.Join(filepath.Dir(filepath.Dir(absIdx)), fmt.Sprintf("hidden-by-the-harness-%d", k))
			if os.Rename(paths[k], hidden) != nil {
				err = fmt.Errorf("harness: cannot hide %s", paths[k])
				return
			}
			first := enc.LoadFileData()
			os.Rename(hidden, paths[k])
			if first == nil {
				err = fmt.Errorf("LoadFileData returned nil although %s did not exist", filepath.Base(paths[k]))
				return
			}
		case "reload-after-files-changed":
			saved := make([][]byte, len(paths))
			for i, p := range paths {
				saved[i], _ = os.ReadFile(p)
				// every file is longer during the first load (so the longest file
				// shrinks afterwards)
				os.WriteFile(p, append(append([]byte("other content "), saved[i]...), make([]byte, 40+rng.Intn(200))...), 0644)
			}
			enc.LoadFileData()
			for i, p := range paths {
				os.WriteFile(p, saved[i], 0644)
			}
		case "reload-unchanged":
			if e := enc.LoadFileData(); e != nil {
				err = e
				return
			}
		}
		if e := enc.LoadFileData(); e != nil {
			err, refused = e, true
			return
		}
		if e := enc.ComputeParityData(); e != nil {
			err = e
			return
		}
		err = enc.Write(idx)
	})
	return
}

// p2DecoderCounts loads a fresh par2.Decoder and returns its counts.
func p2FreshCounts(idx string, g int) (par2.ShardCounts, error) {
	res, err := par2.Verify(idx, par2.VerifyOptions{NumGoroutines: g})
	return res.ShardCounts, err
}

// p2DecoderReload drives one par2.Decoder through load -> mutate(dir) ->
// load again and compares the counts of the reloaded object with those of a
// fresh Verify of the same directory. mutate changes the directory between
// the two loads.
func p2DecoderReload(r *core.R, what, idx string, g int, mutate func()) {
	var first, second par2.ShardCounts
	var err1, err2 error
	pi := core.Protect(func() {
		d, err := par2.NewDecoder(par2.DoNothingDecoderDelegate{}, idx, g)
		if err != nil {
			err1, err2 = err, err
			return
		}
		load := func() error {
			if e := d.LoadFileData(); e != nil {
				return e
			}
			return d.LoadParityData()
		}
		if err1 = load(); err1 == nil {
			first = d.ShardCounts()
		}
		mutate()
		if err2 = load(); err2 == nil {
			second = d.ShardCounts()
		}
	})
	_ = first
	if pi != nil {
		r.Violate(core.CrashSig("par2.Decoder", pi.Frame, pi.Msg), "%s: a Decoder loaded twice panicked: %s", what, pi.Msg)
		return
	}
	r.Count("decoder_reloads", 1)
	if err2 != nil {
		r.Count("decoder_reload_refused", 1)
		return
	}
	var fresh par2.ShardCounts
	var ferr error
	if pi := core.Protect(func() { fresh, ferr = p2FreshCounts(idx, g) }); pi != nil || ferr != nil {
		return
	}
	if second != fresh {
		r.Violate("reloaded-decoder-not-truthful", "%s: after the directory changed and the same Decoder loaded file and recovery data again (first load: err=%v) its counts are %+v, a fresh Verify of the same directory gives %+v", what, err1, second, fresh)
	}
}

// p1DecoderReload is the PAR1 counterpart (FileCounts).
func p1DecoderReload(r *core.R, what, idx string, mutate func()) {
	var second par1.FileCounts
	var err1, err2 error
	pi := core.Protect(func() {
		d, err := par1.NewDecoder(par1.DoNothingDecoderDelegate{}, idx)
		if err != nil {
			err1, err2 = err, err
			return
		}
		load := func() error {
			if e := d.LoadFileData(); e != nil {
				return e
			}
			return d.LoadParityData()
		}
		err1 = load()
		mutate()
		if err2 = load(); err2 == nil {
			second = d.FileCounts()
		}
	})
	if pi != nil {
		r.Violate(core.CrashSig("par1.Decoder", pi.Frame, pi.Msg), "%s: a Decoder loaded twice panicked: %s", what, pi.Msg)
		return
	}
	r.Count("decoder_reloads", 1)
	if err2 != nil {
		r.Count("decoder_reload_refused", 1)
		return
	}
	var fresh par1.VerifyResult
	var ferr error
	if pi := core.Protect(func() { fresh, ferr = par1.Verify(idx, par1.VerifyOptions{}) }); pi != nil || ferr != nil {
		return
	}
	if second != fresh.FileCounts {
		r.Violate("reloaded-decoder-not-truthful", "%s: after the directory changed and the same Decoder loaded file and parity data again (first load: err=%v) its counts are %+v, a fresh Verify of the same directory gives %+v", what, err1, second, fresh.FileCounts)
	}
}

// encoderHistoryDifferential writes the same set twice - through the one-shot
// Create and through a history on one Encoder object - into two directories
// and compares the written files byte for byte.
func encoderHistoryDifferential(r *core.R, format, hist, sig string, rng *rand.Rand) {
	root, err := os.MkdirTemp("", "enc-hist-")
	if err != nil {
		r.Inconclusive("tempdir: %v", err)
		return
	}
	defer os.RemoveAll(root)
	nf := 2 + rng.Intn(5)
	slice := []int{4, 16, 64, 400}[rng.Intn(4)]
	blocks := 1 + rng.Intn(5)
	type fileT struct {
		name string
		data []byte
	}
	var files []fileT
	for i := 0; i < nf; i++ {
		b := make([]byte, 1+rng.Intn(6*slice))
		rng.Read(b)
		files = append(files, fileT{fmt.Sprintf("in-%d.dat", i), b})
	}
	ext := map[string]string{"par2": ".par2", "par1": ".par"}[format]
	run := func(tag string, via string) (map[string]string, error, bool, *core.PanicInfo) {
		dir := filepath.Join(root, tag, "set")
		os.MkdirAll(dir, 0755)
		var paths []string
		inputs := map[string]bool{}
		for _, f := range files {
			p := filepath.Join(dir, f.name)
			os.WriteFile(p, f.data, 0644)
			paths = append(paths, p)
			inputs[f.name] = true
		}
		idx := filepath.Join(dir, "arch"+ext)
		var err error
		var refused bool
		var pi *core.PanicInfo
		switch {
		case via == "" && format == "par2":
			pi = core.Protect(func() {
				err = par2.Create(idx, paths, par2.CreateOptions{SliceByteCount: slice, NumParityShards: blocks, NumGoroutines: 2})
			})
		case via == "":
			pi = core.Protect(func() { err = par1.Create(idx, paths, par1.CreateOptions{NumParityFiles: blocks}) })
		case format == "par2":
			err, refused, pi = p2CreateVia(via, rng, idx, paths, slice, blocks, 2)
		default:
			err, refused, pi = p1CreateVia(via, rng, idx, paths, blocks)
		}
		// inputs must be what they were
		for _, f := range files {
			if b, e := os.ReadFile(filepath.Join(dir, f.name)); e != nil || string(b) != string(f.data) {
				r.Inconclusive("harness: input %s not restored", f.name)
			}
		}
		return createdFiles(dir, inputs), err, refused, pi
	}
	ref, rerr, _, rpi := run("fresh", "")
	if rpi != nil || rerr != nil {
		r.Violate("create-failed|"+format, "fresh Create: %v %v", rerr, rpi)
		return
	}
	got, herr, refused, hpi := run("history", hist)
	desc := fmt.Sprintf("%s, %d files, slice %d, %d blocks, history %q on one Encoder", format, nf, slice, blocks, hist)
	switch {
	case hpi != nil:
		r.Violate(core.CrashSig(format+".Encoder", hpi.Frame, hpi.Msg), "%s: panic %s", desc, hpi.Msg)
	case herr != nil && refused:
		r.Count("encoder_history_refused", 1)
	case herr != nil:
		r.Violate(sig+"|error", "%s: after the earlier step was repeated the Encoder fails: %v (a fresh Create of the same files succeeds)", desc, herr)
	default:
		if d := diffCreated(ref, got); len(d) > 0 {
			r.Violate(sig, "%s: the files written differ from those of a fresh Create of the same inputs: %v", desc, d)
		}
	}
	r.Count("encoder_histories|"+hist, 1)
	r.Key("encoder-history|%s|%s|f=%d|s=%d|b=%d", format, hist, nf, slice, blocks)
	r.Sample(map[string]interface{}{"mode": "encoder-history", "format": format, "history": hist, "files": nf, "slice": slice, "blocks": blocks})
}

func diffCreated(a, b map[string]string) []string {
	var d []string
	for k, v := range a {
		if w, ok := b[k]; !ok {
			d = append(d, "missing "+k)
		} else if w != v {
			d = append(d, "differs "+k)
		}
	}
	for k := range b {
		if _, ok := a[k]; !ok {
			d = append(d, "extra "+k)
		}
	}
	return d
}

// decoderRetryAfterFailedWrite: victim (a protected file within the recovery
// capacity) is replaced by a symbolic link into a directory that does not
// exist, so that it is missing and its write fails. One Decoder object loads
// the set and repairs (must fail, or really restore the file); the link is
// removed; the SAME object repairs again: nil then means the file is back.
func decoderRetryAfterFailedWrite(r *core.R, format, idx, victim string, orig []byte, goneDir string) {
	os.Remove(victim)
	if os.Symlink(filepath.Join(goneDir, "gone", "away", "target"), victim) != nil {
		return
	}
	desc := fmt.Sprintf("%s: %s is a dangling symbolic link during the first Repair of one Decoder object, removed before the second", format, filepath.Base(victim))
	var first, second error
	intact := func() bool {
		b, err := os.ReadFile(victim)
		return err == nil && string(b) == string(orig)
	}
	firstLied, secondIntact := false, false
	pi := core.Protect(func() {
		var repair func() error
		if format == "par2" {
			d, err := par2.NewDecoder(par2.DoNothingDecoderDelegate{}, idx, 2)
			if err != nil {
				first, second = err, err
				return
			}
			if err := d.LoadFileData(); err != nil {
				first, second = err, err
				return
			}
			if err := d.LoadParityData(); err != nil {
				first, second = err, err
				return
			}
			repair = func() error { _, e := d.Repair(false); return e }
		} else {
			d, err := par1.NewDecoder(par1.DoNothingDecoderDelegate{}, idx)
			if err != nil {
				first, second = err, err
				return
			}
			if err := d.LoadFileData(); err != nil {
				first, second = err, err
				return
			}
			if err := d.LoadParityData(); err != nil {
				first, second = err, err
				return
			}
			repair = func() error { _, e := d.Repair(false); return e }
		}
		first = repair()
		firstLied = first == nil && !intact()
		os.Remove(victim)
		second = repair()
		secondIntact = intact()
	})
	os.Remove(victim)
	if pi != nil {
		r.Violate(core.CrashSig(format+".Decoder.Repair", pi.Frame, pi.Msg), "%s: panic %s", desc, pi.Msg)
		return
	}
	r.Count("decoder_retries_after_failed_write", 1)
	if firstLied {
		r.Violate("repair-nil-but-files-differ", "%s: the first Repair returned nil although the file could not be written", desc)
	}
	if second == nil && !secondIntact {
		r.Violate("repair-nil-but-files-differ", "%s: first Repair: %v; the second Repair on the same object returned nil but the file is not the original", desc, first)
	}
}
