package checks

import (
	"fmt"
	"math/rand"
	"os"
	"os/exec"
	"path/filepath"
	"sort"
	"strings"
	"syscall"

	"verifharness/internal/core"
	"verifharness/internal/ref/par2rw"
	"verifharness/internal/scen"
)

// C20 — the par command's exit status reflects the outcome.

type c20 struct{ base }

type c20Params struct {
	Seed  int64  `json:"seed"`
	Fmt   string `json:"fmt"`
	State string `json:"state"`
	Cwd   string `json:"cwd"` // set | parent | other
}

func init() {
	register(&c20{base{
		id:          "C20",
		level:       lvlExploration,
		rule:        "the built par binary is run as a real process for {PAR1, PAR2} x archive state {intact, repairable, all-slices-present-but-wrong with and without recovery files (PAR2), unrepairable, no parity + damage, no parity + intact, damaged index, missing index} x invocation directory {set directory with a relative path, parent with a relative path, unrelated directory with an absolute path} x command spellings (create/c/C/Create, verify/v/VERIFY, repair/r/Repair) and flags (-g, -s, -c, -a, -doublecheck); plus usage errors (no command, unknown command, missing arguments, bad flags) and create failures (missing input, invalid slice size, unwritable target, a directory squatting on a volume name). The expected status is computed by the harness from the state it constructed: create ok 0; verify clean 0 / needed+possible 1 / needed+impossible 2; repair done 0 / impossible 2; usage 3; any other failure a status outside {0,1,2,3}. A 0 status is cross-checked against the disk (repair: all originals; create: complete set that verifies; verify: files identical). A key is (format, state, cwd, command spelling, flags). A third of the archives are renamed to base names containing '%'. create with an input listed twice: refused, or exit 0 and the set verifies. PAR1 sets filled to capacity (255+1, 250+6, 157+99, 3+99, 1+1) created by the binary, with as many files lost as volumes (1 / 0) and one more (2 / 2). A third of the PAR2 worlds contain identical slices (expected statuses of data-losing states are then computed from the bytes); a third of the PAR1 worlds carry another client's identifier in the version field.. create -c N: the recovery files must hold N distinct blocks; option values at and beyond the edges (-c 0/-1/70000, -s 0/-8/3, -g 0/-3/100000).. States data-is-directory (a read failure, not damage) and create with one unreadable input among good ones.. State copy-deleted through the binary. The -cpuprofile option: an unwritable profile is a failure status outside {0,1,2,3} for create, verify and repair; a writable one changes nothing and exists afterwards. Capacity states first request one volume more than fits (refused, or all written); create with every input empty (refused with a status outside 0..3, or a set that verifies).",
		assumptions: commonAssumptions,
		opts:        core.WorkerOpts{CrashIsViolation: false, WallSeconds: 2400},
	}})
}

var c20States = []string{"data-is-directory", "parity-gap", "intact", "repairable", "mangled", "noparity-mangled", "unrepairable", "noparity-damaged", "noparity-intact", "damaged-index", "missing-index", "usage", "create"}

func (c *c20) Cases(tier string, seed int64) []core.Case {
	var cs []core.Case
	r := core.Rng("C20", tier, seed)
	reps := map[string]int{"quick": 1, "thorough": 20}[tier]
	for k := 0; k < reps; k++ {
		for _, f := range []string{"par2", "par1"} {
			for _, st := range c20States {
				if f == "par1" && (st == "mangled" || st == "noparity-mangled") {
					continue
				}
				for _, cwd := range []string{"set", "parent", "other"} {
					cs = append(cs, core.MkCase(fmt.Sprintf("%s-%s-cwd=%s-%d", f, st, cwd, k), c20Params{r.Int63(), f, st, cwd}))
				}
			}
		}
		cs = append(cs, core.MkCase(fmt.Sprintf("par2-copy-deleted-%d", k), c20Params{r.Int63(), "par2", "copy-deleted", "set"}))
		for _, cap := range []string{"255+1", "250+6", "157+99", "3+99", "1+1"} {
			cs = append(cs, core.MkCase(fmt.Sprintf("par1-capacity-%s-%d", cap, k), c20Params{r.Int63(), "par1", "capacity:" + cap, "set"}))
		}
	}
	return cs
}

// runCapacity: PAR1 sets filled to what the format allows (files + volumes =
// 256, or 99 volumes), created by the binary, with exactly as many files lost
// as there are volumes, and with one more.
func (c *c20) runCapacity(r *core.R, p c20Params, rng *rand.Rand) {
	var nf, nv int
	fmt.Sscanf(p.State, "capacity:%d+%d", &nf, &nv)
	root, err := os.MkdirTemp("", "c20cap-")
	if err != nil {
		r.Inconclusive("tempdir: %v", err)
		return
	}
	defer os.RemoveAll(root)
	setDir := filepath.Join(root, "set")
	os.MkdirAll(setDir, 0755)
	var names []string
	data := map[string][]byte{}
	for i := 0; i < nf; i++ {
		n := fmt.Sprintf("d%03d.bin", i)
		names = append(names, n)
		data[n] = scen.GenData(rng, "random", 1+rng.Intn(40), 16)
		os.WriteFile(filepath.Join(setDir, n), data[n], 0644)
	}
	check := func(what string, got cliRun, want string) {
		r.Count("invocations", 1)
		if strings.Contains(got.out, "panic: ") || strings.Contains(got.out, "goroutine 1 [") || got.signal != "" {
			r.Violate("process-crashed|par1|"+what, "%s [%d files + %d volumes]: crashed (status %d %s): %s", what, nf, nv, got.exit, got.signal, tailStr(got.out, 600))
		}
		if fmt.Sprint(got.exit) != want {
			r.Violate(fmt.Sprintf("exit-status|par1|%s|want=%s|got=%d", what, want, got.exit), "%s [%d files + %d volumes]: exit status %d, expected %s; output tail: %s", what, nf, nv, got.exit, want, tailStr(got.out, 400))
		}
		r.Key("par1|capacity|%d+%d|%s", nf, nv, what)
		r.SetAdd("exit_statuses_seen", fmt.Sprint(got.exit))
	}
	// one volume more than the format has room for: refused, or all of them written
	{
		over := runPar(setDir, append([]string{"c", "-c", fmt.Sprint(nv + 1), "over.par"}, names...)...)
		r.Count("invocations", 1)
		if over.exit == 0 && over.signal == "" {
			got := 0
			for v := 1; v <= nv+1; v++ {
				if _, err := os.Stat(filepath.Join(setDir, fmt.Sprintf("over.p%02d", v))); err == nil {
					got++
				}
			}
			if got != nv+1 {
				r.Violate("exit-0-contradicted-by-disk|create", "create -c %d with %d files exited 0 but %d of the %d requested volumes exist", nv+1, nf, got, nv+1)
			}
		} else if over.exit >= 0 && over.exit <= 3 || over.signal != "" || strings.Contains(over.out, "panic: ") {
			r.Violate(fmt.Sprintf("exit-status|par1|create-beyond-capacity|want=other-failure|got=%d", over.exit), "create -c %d with %d files: exit status %d %s, expected a failure status outside 0..3; output tail: %s", nv+1, nf, over.exit, over.signal, tailStr(over.out, 400))
		}
		r.Key("par1|capacity|%d+%d|create-beyond-capacity", nf, nv)
		ents, _ := os.ReadDir(setDir)
		for _, de := range ents {
			if strings.HasPrefix(de.Name(), "over.") {
				os.Remove(filepath.Join(setDir, de.Name()))
			}
		}
	}
	check("create-full-set", runPar(setDir, append([]string{"c", "-c", fmt.Sprint(nv), "full.par"}, names...)...), "0")
	check("verify-full-set", runPar(setDir, "v", "full.par"), "0")
	lose := func(k int) {
		for _, i := range rng.Perm(nf)[:k] {
			os.Remove(filepath.Join(setDir, names[i]))
		}
	}
	lose(minInt(nv, nf))
	check("verify-as-many-lost-as-volumes", runPar(setDir, "v", "full.par"), "1")
	rr := runPar(setDir, "r", "full.par")
	check("repair-as-many-lost-as-volumes", rr, "0")
	if rr.exit == 0 {
		for _, n := range names {
			if b, err := os.ReadFile(filepath.Join(setDir, n)); err != nil || string(b) != string(data[n]) {
				r.Violate("exit-0-contradicted-by-disk|repair", "repair of a full PAR1 set (%d+%d) exited 0 but %s is not the original", nf, nv, n)
				break
			}
		}
	}
	if nf > nv {
		for _, n := range names {
			os.WriteFile(filepath.Join(setDir, n), data[n], 0644)
		}
		lose(nv + 1)
		check("verify-one-more-lost-than-volumes", runPar(setDir, "v", "full.par"), "2")
		check("repair-one-more-lost-than-volumes", runPar(setDir, "r", "full.par"), "2")
	}
	r.Sample(map[string]interface{}{"format": "par1", "state": p.State, "files": nf, "volumes": nv})
}

// runCopyDeleted: a PAR2 set created by the binary protects a file and an
// exact copy of it, with fewer recovery blocks than the file has slices; the
// copy is deleted. Repair is needed and possible (1), repair does it (0),
// afterwards nothing is left to do (0).
func (c *c20) runCopyDeleted(r *core.R, p c20Params, rng *rand.Rand) {
	root, err := os.MkdirTemp("", "c20copy-")
	if err != nil {
		r.Inconclusive("tempdir: %v", err)
		return
	}
	defer os.RemoveAll(root)
	setDir := filepath.Join(root, "set")
	os.MkdirAll(setDir, 0755)
	orig := scen.GenData(rng, "random", 16*(4+rng.Intn(4))+rng.Intn(16), 16)
	files := map[string][]byte{"report.doc": orig, "report (copy).doc": append([]byte(nil), orig...), "other.bin": scen.GenData(rng, "random", 40, 16)}
	var names []string
	for n, b := range files {
		os.WriteFile(filepath.Join(setDir, n), b, 0644)
		names = append(names, n)
	}
	sort.Strings(names)
	check := func(what string, got cliRun, want string) {
		r.Count("invocations", 1)
		if strings.Contains(got.out, "panic: ") || got.signal != "" {
			r.Violate("process-crashed|par2|"+what, "%s: crashed: %s", what, tailStr(got.out, 500))
		}
		if fmt.Sprint(got.exit) != want {
			r.Violate(fmt.Sprintf("exit-status|par2|%s|want=%s|got=%d", what, want, got.exit), "%s [a file and its exact copy protected with 2 blocks; one of the two deleted]: exit status %d, expected %s; output tail: %s", what, got.exit, want, tailStr(got.out, 400))
		}
		r.Key("par2|copy-deleted|%s", what)
		r.SetAdd("exit_statuses_seen", fmt.Sprint(got.exit))
	}
	check("create-with-a-copy", runPar(setDir, append([]string{"c", "-s", "16", "-c", "2", "dup.par2"}, names...)...), "0")
	victim := []string{"report.doc", "report (copy).doc"}[rng.Intn(2)]
	os.Remove(filepath.Join(setDir, victim))
	check("verify-copy-deleted", runPar(setDir, "v", "dup.par2"), "1")
	rr := runPar(setDir, "r", "dup.par2")
	check("repair-copy-deleted", rr, "0")
	if b, err := os.ReadFile(filepath.Join(setDir, victim)); rr.exit == 0 && (err != nil || string(b) != string(orig)) {
		r.Violate("exit-0-contradicted-by-disk|repair", "repair exited 0 but %s is not back", victim)
	}
	check("verify-after-repair", runPar(setDir, "v", "dup.par2"), "0")
	r.Sample(map[string]interface{}{"format": "par2", "state": p.State, "deleted": victim})
}

type cliRun struct {
	exit   int
	signal string
	out    string
}

func runPar(cwd string, args ...string) cliRun {
	cmd := exec.Command(os.Getenv("VW_PAR_EXE"), args...)
	cmd.Dir = cwd
	out, err := cmd.CombinedOutput()
	res := cliRun{out: string(out)}
	if err != nil {
		if ee, ok := err.(*exec.ExitError); ok {
			ws := ee.Sys().(syscall.WaitStatus)
			if ws.Signaled() {
				res.signal = ws.Signal().String()
				res.exit = 128 + int(ws.Signal())
			} else {
				res.exit = ws.ExitStatus()
			}
		} else {
			res.exit = -1
			res.out += err.Error()
		}
	}
	return res
}

func (c *c20) Run(cs core.Case) core.Result {
	var p c20Params
	core.Decode(cs, &p)
	r := core.NewR(cs)
	if os.Getenv("VW_PAR_EXE") == "" {
		r.Inconclusive("par binary not built")
		return r.Done()
	}
	rng := rand.New(rand.NewSource(p.Seed))
	if strings.HasPrefix(p.State, "capacity:") {
		c.runCapacity(r, p, rng)
		return r.Done()
	}
	if p.State == "copy-deleted" {
		c.runCopyDeleted(r, p, rng)
		return r.Done()
	}
	dup := false
	if p.Fmt == "par2" && (p.Seed>>5)%3 == 0 {
		// identical slices inside and across the protected files
		c18Content = "dup"
		dup = true
	}
	w, err := newC18World(p.Fmt, p.Seed, "intact", false)
	c18Content = ""
	if w != nil {
		defer w.close()
	}
	if err != nil {
		r.Violate("setup-create-failed", "%v", err)
		return r.Done()
	}
	top := filepath.Join(w.root, "run")
	copyTree(w.tmpl, top)
	setDir := filepath.Join(top, "set")
	other := filepath.Join(w.root, "unrelated")
	os.MkdirAll(other, 0755)
	cwd := map[string]string{"set": setDir, "parent": top, "other": other}[p.Cwd]
	spell := func(rel string) string {
		switch p.Cwd {
		case "set":
			return rel
		case "parent":
			return "set/" + rel
		}
		return filepath.Join(setDir, rel)
	}
	// archive files may be called anything: a third of the cases carry a '%'
	// in the base name (renamed after Create; the names are not stored inside)
	base := "a"
	if (p.Seed>>9)%3 == 0 {
		base = []string{"a 100%", "my%20set", "%d%s%v"}[(p.Seed>>12)%3]
		ents, _ := os.ReadDir(setDir)
		for _, e := range ents {
			if strings.HasPrefix(e.Name(), "a.") {
				os.Rename(filepath.Join(setDir, e.Name()), filepath.Join(setDir, base+e.Name()[1:]))
			}
		}
		w.idxName = base + w.idxName[1:]
	}
	// PAR1 files written by another client carry its identifier in the upper
	// half of the version field (outside the control hash)
	if p.Fmt == "par1" && (p.Seed>>7)%3 == 0 {
		ents, _ := os.ReadDir(setDir)
		for _, e := range ents {
			if strings.HasPrefix(e.Name(), base+".") {
				pth := filepath.Join(setDir, e.Name())
				if b, err := os.ReadFile(pth); err == nil && len(b) > 16 && string(b[:8]) == "PAR\x00\x00\x00\x00\x00" {
					copy(b[12:16], []byte{0x01, 0x09, 0x00, 0x02})
					os.WriteFile(pth, b, 0644)
				}
			}
		}
		r.Count("par1_sets_with_client_identifier", 1)
	}
	idx := spell(w.idxName)
	dataPath := func(i int) string { return filepath.Join(setDir, w.dataRel[i]) }
	flip := func(i int) {
		b := append([]byte(nil), w.files[i].Data...)
		if len(b) == 0 {
			b = []byte{3}
		} else {
			b[len(b)/3] ^= 0x31
		}
		os.WriteFile(dataPath(i), b, 0644)
	}
	removeVolumes := func() {
		ents, _ := os.ReadDir(setDir)
		for _, e := range ents {
			if strings.HasPrefix(e.Name(), base+".") && e.Name() != w.idxName {
				os.Remove(filepath.Join(setDir, e.Name()))
			}
		}
	}
	expect := func(what string, got cliRun, want string) {
		r.Count("invocations", 1)
		// A Go panic exits with status 2, which is also "repair not possible":
		// a crash is recognised by its trace, whatever the status.
		if strings.Contains(got.out, "panic: ") || strings.Contains(got.out, "fatal error: ") || strings.Contains(got.out, "goroutine 1 [") || got.signal != "" {
			r.Violate(fmt.Sprintf("process-crashed|%s|%s", p.Fmt, what), "%s [%s, state %s, cwd=%s]: the process crashed (status %d %s): %s", what, p.Fmt, p.State, p.Cwd, got.exit, got.signal, tailStr(got.out, 700))
		}
		ok := false
		switch want {
		case "0", "1", "2", "3":
			ok = fmt.Sprint(got.exit) == want && got.signal == ""
		case "other-failure":
			ok = got.signal == "" && got.exit != 0 && got.exit != 1 && got.exit != 2 && got.exit != 3
		}
		if !ok {
			r.Violate(fmt.Sprintf("exit-status|%s|%s|want=%s|got=%d", p.Fmt, what, want, got.exit), "%s [%s, state %s, cwd=%s]: exit status %d%s, expected %s; output tail: %s", what, p.Fmt, p.State, p.Cwd, got.exit, got.signal, want, tailStr(got.out, 400))
		}
		r.Key("%s|%s|%s|%s", p.Fmt, p.State, p.Cwd, what)
		r.SetAdd("exit_statuses_seen", fmt.Sprint(got.exit))
	}
	allOriginal := func() []string { return w.originalsIntact(top) }
	verifySpell := []string{"v", "verify", "VERIFY", "Verify", "V"}[rng.Intn(5)]
	repairSpell := []string{"r", "repair", "Repair", "R", "REPAIR"}[rng.Intn(5)]
	g := []string{}
	if rng.Intn(2) == 0 {
		g = []string{"-g", fmt.Sprint(1 + rng.Intn(8))}
	}
	vflags := []string{}
	if p.Fmt == "par1" && rng.Intn(2) == 0 {
		vflags = []string{"-a"}
	}
	rflags := []string{}
	if rng.Intn(2) == 0 {
		rflags = []string{"-doublecheck"}
	}
	verify := func() cliRun {
		return runPar(cwd, append(append(append([]string{}, g...), verifySpell), append(vflags, idx)...)...)
	}
	repair := func() cliRun {
		return runPar(cwd, append(append(append([]string{}, g...), repairSpell), append(rflags, idx)...)...)
	}
	vw, rw := "verify("+verifySpell+")", "repair("+repairSpell+")"

	switch p.State {
	case "data-is-directory":
		// a directory sits where a protected file should be: it is not a file
		// that does not exist (damage), it is a read failure
		k := len(w.dataRel) - 1
		os.Remove(dataPath(k))
		os.MkdirAll(filepath.Join(dataPath(k), "inner"), 0755)
		expect(vw, verify(), "other-failure")
		expect(rw, repair(), "other-failure")
	case "intact":
		expect(vw, verify(), "0")
		before := scen.Snapshot(top)
		expect(rw, repair(), "0")
		if d := scen.DiffSnap(before, scen.Snapshot(top)); len(d) > 0 {
			r.Violate("repair-of-intact-set-changed-files", "%v", d)
		}
	case "parity-gap":
		// the FIRST recovery file is gone, a later one survives; data intact
		first := base + ".vol00+01.par2"
		if p.Fmt == "par1" {
			first = base + ".p01"
		}
		os.Remove(filepath.Join(setDir, first))
		expect(vw, verify(), "0")
		if p.Fmt == "par1" {
			expect("verify-a", runPar(cwd, "v", "-a", idx), "0")
			expect("verify-plain", runPar(cwd, "v", idx), "0")
		}
		expect(rw, repair(), "0")
		expect("repair-doublecheck", runPar(cwd, "r", "-doublecheck", idx), "0")
		// and with one damaged file: still within capacity
		flip(0)
		expect("verify-damaged", runPar(cwd, "v", idx), "1")
		expect("repair-damaged-doublecheck", runPar(cwd, "r", "-doublecheck", idx), "0")
		if bad := allOriginal(); len(bad) > 0 {
			r.Violate("exit-0-contradicted-by-disk|repair", "repair exited 0 but %v are not the originals", bad)
		}
	case "repairable":
		switch {
		case p.Fmt == "par1":
			flip(0)
			if p.Cwd != "set" {
				// unusable files == usable volumes: exactly at capacity
				os.Remove(dataPath(2))
			}
		case rng.Intn(2) == 0:
			flip(0) // one slice
			flip(2) // one slice
		default:
			os.Remove(dataPath(1)) // three slices, three blocks
		}
		expect(vw, verify(), "1")
		rr := repair()
		expect(rw, rr, "0")
		if rr.exit == 0 {
			if bad := allOriginal(); len(bad) > 0 {
				r.Violate("exit-0-contradicted-by-disk|repair", "repair exited 0 but %v are not the originals", bad)
			}
			expect("verify-after-repair", verify(), "0")
		}
	case "mangled":
		os.WriteFile(dataPath(0), append(append([]byte(nil), w.files[0].Data...), 9, 9, 9), 0644)
		vr := verify()
		expect(vw, vr, "1")
		rr := repair()
		expect(rw, rr, "0")
		if rr.exit == 0 {
			if bad := allOriginal(); len(bad) > 0 {
				r.Violate("exit-0-contradicted-by-disk|repair", "repair exited 0 but %v are not the originals", bad)
			}
		}
	case "noparity-mangled":
		// every slice is still present (garbage appended), no recovery file
		// left: repair is needed and possible with zero blocks
		removeVolumes()
		os.WriteFile(dataPath(2), append(append([]byte(nil), w.files[2].Data...), 7), 0644)
		expect(vw, verify(), "1")
		rr := repair()
		expect(rw, rr, "0")
		if rr.exit == 0 {
			if bad := allOriginal(); len(bad) > 0 {
				r.Violate("exit-0-contradicted-by-disk|repair", "repair exited 0 but %v are not the originals", bad)
			}
		}
	case "unrepairable":
		// more damage than recovery capacity
		if p.Fmt == "par2" {
			os.Remove(dataPath(0))
			os.Remove(dataPath(2))
		} else {
			flip(0)
			os.Remove(dataPath(2))
			os.WriteFile(dataPath(1), []byte("x"), 0644)
		}
		wantV, wantR := "2", "2"
		if dup && w.withinCapacity(top) {
			// duplicates of the lost slices survive elsewhere (decided from the bytes)
			wantV, wantR = "1", "0"
		}
		expect(vw, verify(), wantV)
		expect(rw, repair(), wantR)
	case "noparity-damaged":
		removeVolumes()
		flip(0)
		wantV, wantR := "2", "2"
		if dup && w.withinCapacity(top) {
			wantV, wantR = "1", "0"
		}
		expect(vw, verify(), wantV)
		expect(rw, repair(), wantR)
	case "noparity-intact":
		removeVolumes()
		expect(vw, verify(), "0")
		if p.Fmt == "par1" {
			expect("verify-a", runPar(cwd, "v", "-a", idx), "0")
			expect("verify-plain", runPar(cwd, "v", idx), "0")
		}
		expect(rw, repair(), "0")
		expect("repair-doublecheck", runPar(cwd, "r", "-doublecheck", idx), "0")
	case "damaged-index":
		b, _ := os.ReadFile(filepath.Join(setDir, w.idxName))
		switch rng.Intn(3) {
		case 0:
			b = scen.Garbage(rng, len(b))
		case 1:
			b = b[:len(b)/2]
		default:
			b[len(b)/2] ^= 0xff
		}
		os.WriteFile(filepath.Join(setDir, w.idxName), b, 0644)
		expect(vw, verify(), "other-failure")
		expect(rw, repair(), "other-failure")
	case "missing-index":
		os.Remove(filepath.Join(setDir, w.idxName))
		expect(vw, verify(), "other-failure")
		expect(rw, repair(), "other-failure")
		// unknown extension
		expect("verify-unknown-extension", runPar(cwd, "v", spell("a.zip")), "other-failure")
		expect("repair-unknown-extension", runPar(cwd, "r", spell("a.rar")), "other-failure")
		expect("create-unknown-extension", runPar(cwd, "c", spell("a.zip"), spell(w.dataRel[0])), "other-failure")
	case "usage":
		expect("no-arguments", runPar(cwd), "3")
		expect("unknown-command", runPar(cwd, "frobnicate", idx), "3")
		expect("verify-without-file", runPar(cwd, "v"), "3")
		expect("repair-without-file", runPar(cwd, "repair"), "3")
		expect("create-without-file", runPar(cwd, "c"), "3")
		expect("create-without-data-files", runPar(cwd, "create", spell("new"+filepath.Ext(w.idxName))), "3")
		expect("create-with-options-but-no-data-files", runPar(cwd, "c", "-c", "2", spell("new"+filepath.Ext(w.idxName))), "3")
		expect("create-with-slice-option-but-no-data-files", runPar(cwd, "create", "-s", "8", "-c=3", spell("new"+filepath.Ext(w.idxName))), "3")
		expect("create-with-options-and-no-file", runPar(cwd, "c", "-c", "2"), "3")
		expect("bad-global-flag", runPar(cwd, "-zz", "v", idx), "3")
		expect("bad-verify-flag", runPar(cwd, "v", "-nope", idx), "3")
		expect("bad-repair-flag", runPar(cwd, "r", "-nope", idx), "3")
		expect("bad-create-flag", runPar(cwd, "c", "-nope", idx, spell(w.dataRel[0])), "3")
		expect("non-numeric-g", runPar(cwd, "-g", "many", "v", idx), "3")
		expect("non-numeric-s", runPar(cwd, "c", "-s", "big", idx, spell(w.dataRel[0])), "3")
	case "create":
		ext := filepath.Ext(w.idxName)
		createSpell := []string{"c", "create", "C", "Create", "CREATE"}[rng.Intn(5)]
		cflags := []string{}
		if p.Fmt == "par2" {
			cflags = append(cflags, "-s", fmt.Sprint(4*(1+rng.Intn(20))))
		}
		cflags = append(cflags, "-c", fmt.Sprint(1+rng.Intn(5)))
		args := append(append(append([]string{}, g...), createSpell), cflags...)
		newIdx := spell("fresh" + ext)
		args = append(args, newIdx)
		for _, rel := range w.dataRel {
			args = append(args, spell(rel))
		}
		cr := runPar(cwd, args...)
		expect("create("+createSpell+")", cr, "0")
		if cr.exit == 0 {
			if _, err := os.Stat(filepath.Join(setDir, "fresh"+ext)); err != nil {
				r.Violate("exit-0-contradicted-by-disk|create", "create exited 0 but %s does not exist", "fresh"+ext)
			}
			// format follows the extension
			ents, _ := os.ReadDir(setDir)
			vols := 0
			for _, e := range ents {
				n := e.Name()
				if p.Fmt == "par2" && strings.HasPrefix(n, "fresh.vol") && strings.HasSuffix(n, ".par2") {
					vols++
				}
				if p.Fmt == "par1" && strings.HasPrefix(n, "fresh.p") && n != "fresh.par" {
					vols++
				}
			}
			if p.Fmt == "par2" {
				// -c N means N recovery blocks, stored exactly once
				var nReq int
				for i, a := range cflags {
					if a == "-c" && i+1 < len(cflags) {
						fmt.Sscan(cflags[i+1], &nReq)
					}
				}
				seen := map[uint32]int{}
				for _, e := range ents {
					if strings.HasPrefix(e.Name(), "fresh.") && strings.HasSuffix(e.Name(), ".par2") {
						if b, err := os.ReadFile(filepath.Join(setDir, e.Name())); err == nil {
							for _, pk := range par2rw.ParseLenient(b) {
								if pk.Type == par2rw.TypeRecv {
									if rv, err := par2rw.DecodeRecv(pk.Body); err == nil {
										seen[rv.Exp]++
									}
								}
							}
						}
					}
				}
				if nReq > 0 && len(seen) != nReq {
					r.Violate("exit-0-contradicted-by-disk|create", "create -c %d exited 0 but the recovery files hold %d distinct blocks", nReq, len(seen))
				}
				r.Count("created_block_counts_checked", 1)
			}
			if vols == 0 {
				r.Violate("exit-0-contradicted-by-disk|create", "create exited 0 but no recovery volume of the %s format was written", p.Fmt)
			}
			expect("verify-after-create", runPar(cwd, "v", newIdx), "0")
		}
		// failures
		expect("create-missing-input", runPar(cwd, "c", spell("m"+ext), spell("does-not-exist.bin")), "other-failure")
		expect("create-one-input-missing-among-others", runPar(cwd, "c", spell("m2"+ext), spell(w.dataRel[0]), spell("does-not-exist.bin"), spell(w.dataRel[len(w.dataRel)-1])), "other-failure")
		expect("create-one-input-below-a-file", runPar(cwd, "c", spell("m3"+ext), spell(w.dataRel[0]), spell(w.dataRel[0]+"/not-a-dir.bin")), "other-failure")
		if p.Fmt == "par2" {
			expect("create-invalid-slice-size", runPar(cwd, "c", "-s", "5", spell("s"+ext), spell(w.dataRel[0])), "other-failure")
		}
		// inputs that are all empty: nothing to protect, a failure of its own
		// kind (or a set that verifies)
		{
			os.WriteFile(filepath.Join(setDir, "empty-1.bin"), nil, 0644)
			os.WriteFile(filepath.Join(setDir, "empty-2.bin"), nil, 0644)
			eIdx := spell("empties" + ext)
			er := runPar(cwd, "c", "-c", "2", eIdx, spell("empty-1.bin"), spell("empty-2.bin"))
			if er.exit == 0 && er.signal == "" {
				expect("create-all-inputs-empty", er, "0")
				expect("verify-after-create-all-inputs-empty", runPar(cwd, "v", eIdx), "0")
			} else {
				expect("create-all-inputs-empty", er, "other-failure")
			}
			os.Remove(filepath.Join(setDir, "empty-1.bin"))
			os.Remove(filepath.Join(setDir, "empty-2.bin"))
		}
		// the profile option: a profile that cannot be written is a failure of
		// its own kind for every command (never 0, and not 1/2/3, which speak
		// about repair and usage); one that can be written changes nothing
		{
			badProf := filepath.Join(setDir, "no-such-dir", "cpu.prof")
			expect("create-unwritable-cpuprofile", runPar(cwd, "-cpuprofile", badProf, "c", "-c", "2", spell("cp"+ext), spell(w.dataRel[0])), "other-failure")
			if cr.exit == 0 {
				expect("verify-unwritable-cpuprofile", runPar(cwd, "-cpuprofile", badProf, "v", newIdx), "other-failure")
				expect("repair-unwritable-cpuprofile", runPar(cwd, "-cpuprofile", setDir, "r", newIdx), "other-failure")
				goodProf := filepath.Join(w.root, "cpu.prof")
				expect("verify-with-cpuprofile", runPar(cwd, "-cpuprofile", goodProf, "v", newIdx), "0")
				if st, err := os.Stat(goodProf); err != nil || st.IsDir() {
					r.Violate("cpuprofile-not-written", "verify -cpuprofile %s exited but the profile does not exist: %v", goodProf, err)
				}
				os.Remove(goodProf)
			}
		}
		// option values at and beyond the edges: either a failure status (not 1
		// or 2, which speak about repair) or a set that verifies
		for oi, opt := range [][]string{{"-c", "0"}, {"-c", "-1"}, {"-s", "0"}, {"-s", "-8"}, {"-g", "0"}, {"-g", "-3"}, {"-c", "70000"}, {"-s", "3"}, {"-c", "1"}, {"-g", "100000"}} {
			if p.Fmt == "par1" && (opt[0] == "-s" || opt[0] == "-c" && opt[1] == "70000") {
				continue
			}
			oIdx := spell(fmt.Sprintf("opt%d%s", oi, ext))
			var or cliRun
			if opt[0] == "-g" {
				or = runPar(cwd, opt[0], opt[1], "c", "-c", "2", oIdx, spell(w.dataRel[0]))
			} else {
				or = runPar(cwd, "c", opt[0], opt[1], oIdx, spell(w.dataRel[0]))
			}
			what := "create" + strings.Join(opt, "")
			switch {
			case or.exit == 0 && or.signal == "":
				expect(what, or, "0")
				expect("verify-after-"+what, runPar(cwd, "v", oIdx), "0")
			case or.exit == 3:
				expect(what, or, "3")
			default:
				expect(what, or, "other-failure")
			}
		}
		// an input listed twice (overlapping shell globs): either refused, or a
		// set that verifies
		{
			dupIdx := spell("dup" + ext)
			dr := runPar(cwd, "c", "-c", "2", dupIdx, spell(w.dataRel[0]), spell(w.dataRel[len(w.dataRel)-1]), spell(w.dataRel[0]))
			if dr.exit == 0 && dr.signal == "" {
				expect("create-repeated-input", dr, "0")
				expect("verify-after-create-with-repeated-input", runPar(cwd, "v", dupIdx), "0")
			} else {
				expect("create-repeated-input", dr, "other-failure")
			}
		}
		// a directory squats on the first volume's name
		squat := "q.vol00+01.par2"
		if p.Fmt == "par1" {
			squat = "q.p01"
		}
		os.MkdirAll(filepath.Join(setDir, squat), 0755)
		sq := runPar(cwd, "c", "-c", "2", spell("q"+ext), spell(w.dataRel[0]))
		expect("create-volume-name-taken-by-directory", sq, "other-failure")
	}
	r.Sample(map[string]interface{}{"format": p.Fmt, "state": p.State, "cwd": p.Cwd, "index_spelling": idx, "verify": verifySpell, "repair": repairSpell, "flags": append(append(g, vflags...), rflags...)})
	return r.Done()
}
