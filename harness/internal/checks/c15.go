package checks

import (
	"fmt"
	"math/rand"
	"os"
	"path/filepath"
	"strings"

	"github.com/akalin/gopar/par1"
	"github.com/akalin/gopar/par2"

	"verifharness/internal/core"
	"verifharness/internal/mon"
	"verifharness/internal/ref/par1rw"
	"verifharness/internal/ref/par2rw"
	"verifharness/internal/scen"
)

// C15 — archives cannot direct writes outside the archive directory.

type c15 struct{ base }

type c15Params struct {
	Seed int64  `json:"seed"`
	Fmt  string `json:"fmt"`
	Name string `json:"name"`
	Mode string `json:"mode"` // lib | cli | create
}

func init() {
	register(&c15{base{
		id:          "C15",
		level:       lvlExploration,
		rule:        "reference writers produce otherwise valid, fully repairable PAR1/PAR2 archives in which ONE declared file name comes from a corpus of traversal spellings (.., ../x, a/../../x, ./../x, absolute paths into a canary tree, '.', empty, trailing and doubled slashes, backslash variants, embedded NUL, 300-byte names, dot-prefixed names, deep a/b/../../../x forms, Unicode look-alikes for PAR1) and that file is 'missing' while enough recovery data exists to rebuild it; the archive directory sits inside a canary tree (parent with decoy files at every traversal target, sibling directories, an absolute-path target). the hostile name is carried by the file description packet or, for a third of the PAR2 cases, by an optional Unicode Filename packet attached to a benignly named file; Verify and Repair run through the library (snapshot of the whole tree before/after; absolute index path, and bare index name with the archive directory as current directory) and through the built par binary under strace (every successful create/write/unlink/rename/mkdir event). Any event or snapshot difference outside the index file's directory tree (PAR1: outside that directory itself) is a violation. Create mode: par2.Create must refuse inputs outside the index directory. A key is (format, name, position in the set, mode, target pre-exists?). Further carriers of the hostile name: a second description packet declaring the same file ID as a benign one; a PAR1 entry that is not saved in the parity set, placed first, carrying size and hashes of a missing saved file. Corpus includes parent references that only appear after one round of stripping and ones followed by ordinary components. Corpus includes control characters beside and inside the dots.. Further layout: a decoy main packet before the hostile description, the real one after it.. The strace layer also judges successful read-opens outside the archive's directory.. Modes lib-parent / cli-parent (index named ../set from a sub-directory).",
		assumptions: append([]string{"on Linux a backslash is an ordinary file-name character; names are judged by where the operating system actually resolves them"}, commonAssumptions...),
		opts:        core.WorkerOpts{CrashIsViolation: true, WallSeconds: 2400},
	}})
}

func c15Corpus(absTarget string) []string {
	long := strings.Repeat("L", 300)
	return []string{
		"../x", "..", ".", "", "a/../../x", "./../x", "a/./../../x", "sub/../../x", "a/b/../../../x", "../../x", "../arch/../x",
		absTarget, "/" + strings.TrimPrefix(absTarget, "/"), "//" + strings.TrimPrefix(absTarget, "/"),
		"x/", "a//x", "a/../x", "./x", "sub/./x",
		"/../x", "//../x", "/sub/../../x", "/sub/x", "/x", "\\/../x",
		"..\\x", "sub\\..\\..\\x", "\\..\\x", "sub/..\\../x", "a\\x",
		// parent references that only appear after one round of stripping, and
		// ones followed by ordinary components
		"....//x", "..././x", "....//....//x", ".../...//x", "..//x", "../sub/x", "../sibling/new", "a/../../sub/deep/x", "a/../../sibling/x", "./.././sub/x", "../a/b/c/d/x", "sub/../../work/x", ".../../../x",
		// control characters beside or inside the dots (a reader that drops them
		// after checking sees a parent reference)
		"\x01../x", "sub/.\x02./.\x02./x", ".\x7f./x", "\x1f..\x1f/x", "a/\t../\t../x", "\n../x", "..\r/x", " \t ../x",
		"ab\x00../x", "../x\x00tail", long, "../" + long, ".hidden", "..hidden", "...", "a/..", "a/../..", "a/.../x", " ../x", "../x ", "~/x", "$HOME/x",
	}
}

var c15Par1Extra = []string{"sub/x", "ａ/ｘ", "．．/x", "‥/x", "..／x", "x∕y", "‮../x"}

func (c *c15) Cases(tier string, seed int64) []core.Case {
	var cs []core.Case
	r := core.Rng("C15", tier, seed)
	reps := map[string]int{"quick": 1, "thorough": 10}[tier]
	names := c15Corpus("@ABS@")
	for _, f := range []string{"par2", "par1"} {
		list := names
		if f == "par1" {
			list = append(append([]string(nil), names...), c15Par1Extra...)
		}
		for _, n := range list {
			for k := 0; k < reps; k++ {
				cs = append(cs, core.MkCase(fmt.Sprintf("%s-lib-%q-%d", f, trunc2(n, 30), k), c15Params{r.Int63(), f, n, "lib"}))
			}
			cs = append(cs, core.MkCase(fmt.Sprintf("%s-cli-%q", f, trunc2(n, 30)), c15Params{r.Int63(), f, n, "cli"}))
			if strings.HasPrefix(n, "@ABS@") || strings.HasPrefix(n, "/") || strings.HasPrefix(n, "..") || strings.Contains(n, "../") {
				// bare index name, current directory = archive directory
				cs = append(cs, core.MkCase(fmt.Sprintf("%s-lib-bare-%q", f, trunc2(n, 30)), c15Params{r.Int63(), f, n, "lib-bare"}))
				cs = append(cs, core.MkCase(fmt.Sprintf("%s-cli-bare-%q", f, trunc2(n, 30)), c15Params{r.Int63(), f, n, "cli-bare"}))
				// the user sits in a sub-directory of the archive's directory and
				// names the index through the parent
				cs = append(cs, core.MkCase(fmt.Sprintf("%s-lib-parent-%q", f, trunc2(n, 30)), c15Params{r.Int63(), f, n, "lib-parent"}))
				cs = append(cs, core.MkCase(fmt.Sprintf("%s-cli-parent-%q", f, trunc2(n, 30)), c15Params{r.Int63(), f, n, "cli-parent"}))
			}
		}
	}
	for k := 0; k < 6*reps; k++ {
		cs = append(cs, core.MkCase(fmt.Sprintf("create-outside-%d", k), c15Params{r.Int63(), "par2", "", "create"}))
	}
	return cs
}

// canaryTree builds root/{canary,work/{arch,sibling}} with decoys.
type canaryTree struct {
	root, work, arch, absTarget string
}

func newCanaryTree(rng *rand.Rand, preexist bool) (*canaryTree, error) {
	root, err := os.MkdirTemp("", "c15-")
	if err != nil {
		return nil, err
	}
	t := &canaryTree{root: root, work: filepath.Join(root, "work"), arch: filepath.Join(root, "work", "arch")}
	for _, d := range []string{"canary", "work/arch", "work/sibling", "work/arch/a/b", "work/arch/sub"} {
		os.MkdirAll(filepath.Join(root, d), 0755)
	}
	t.absTarget = filepath.Join(root, "canary", "abs-target")
	decoys := []string{"x", "work/x", "work/sibling/x", "canary/x", "work/arch/keep.txt", "work/" + strings.Repeat("L", 200)}
	if preexist {
		decoys = append(decoys, "canary/abs-target")
	}
	for _, d := range decoys {
		os.WriteFile(filepath.Join(root, d), []byte("decoy "+d), 0644)
	}
	return t, nil
}

func (c *c15) Run(cs core.Case) core.Result {
	var p c15Params
	core.Decode(cs, &p)
	r := core.NewR(cs)
	rng := rand.New(rand.NewSource(p.Seed))
	preexist := rng.Intn(2) == 0
	t, err := newCanaryTree(rng, preexist)
	if err != nil {
		r.Inconclusive("tempdir: %v", err)
		return r.Done()
	}
	defer os.RemoveAll(t.root)
	name := strings.ReplaceAll(p.Name, "@ABS@", t.absTarget)
	if p.Mode == "create" {
		c.runCreate(r, t, rng)
		return r.Done()
	}
	// Build the archive with the reference writer.
	nf := 2 + rng.Intn(3)
	pos := rng.Intn(nf)
	var idx string
	evilData := scen.GenData(rng, "random", 20+rng.Intn(60), 16)
	if p.Seed%3 == 0 {
		// a zero-length entry: nothing to reconstruct, but the name is still resolved
		evilData = []byte{}
	}
	if p.Fmt == "par2" {
		var in []par2rw.InFile
		for i := 0; i < nf; i++ {
			if i == pos {
				in = append(in, par2rw.InFile{Name: name, Data: evilData})
				continue
			}
			f := par2rw.InFile{Name: fmt.Sprintf("good%d.bin", i), Data: scen.GenData(rng, "random", 10+rng.Intn(80), 16)}
			in = append(in, f)
			os.WriteFile(filepath.Join(t.arch, f.Name), f.Data, 0644)
		}
		useUni := p.Seed%3 == 1
		// Another carrier: the genuine description (benign name) is followed by a
		// second description packet that declares the SAME file ID but the hostile
		// name (valid packet hash; the ID no longer matches the name).
		dupDesc := !useUni && p.Seed%5 == 2
		if dupDesc {
			in[pos].Name = "benign-missing.bin"
		}
		if useUni {
			// the hostile name travels in the optional Unicode Filename packet;
			// the file description itself is benign
			in[pos].Name = "benign-missing.bin"
		}
		rs := par2rw.BuildSet(16, in)
		var uniPackets []par2rw.Packet
		if useUni {
			for _, rf := range rs.Files {
				if rf.Name == "benign-missing.bin" {
					var t [16]byte
					copy(t[:], "PAR 2.0\x00UniFileN")
					body := append([]byte(nil), rf.ID[:]...)
					for _, ru := range name {
						body = append(body, byte(ru), byte(ru>>8))
					}
					for len(body)%4 != 0 {
						body = append(body, 0)
					}
					uniPackets = append(uniPackets, par2rw.Packet{SetID: rs.SetID, Type: t, Body: body})
				}
			}
		}
		if dupDesc {
			for _, rf := range rs.Files {
				if rf.Name == "benign-missing.bin" {
					fd := rf.Desc
					fd.RawName = par2rw.PadName(name)
					dup := par2rw.Packet{SetID: rs.SetID, Type: par2rw.TypeFileDesc, Body: fd.Body()}
					// after everything else, so that it comes after the genuine one
					uniPackets = append(uniPackets, dup)
					r.Count("archives_with_duplicate_description", 1)
				}
			}
		}
		// position actually obtained in the sorted id order
		for i, rf := range rs.Files {
			if rf.Name == name || ((useUni || dupDesc) && rf.Name == "benign-missing.bin") {
				pos = i
			}
		}
		idx = filepath.Join(t.arch, "set.par2")
		// a zero-length file has no slices, hence no checksum packet
		critical := func() []par2rw.Packet {
			var out []par2rw.Packet
			for _, q := range rs.Critical() {
				if q.Type == par2rw.TypeIFSC && len(q.Body) <= 16 {
					continue
				}
				out = append(out, q)
			}
			return out
		}
		pk := append([]par2rw.Packet{rs.MainPacket()}, critical()[1:]...)
		pk = append(pk, rs.CreatorPacket("ref"))
		pk = append(pk, uniPackets...)
		decoyLayout := func(pk []par2rw.Packet) []par2rw.Packet { return pk }
		if !useUni && !dupDesc && p.Seed%5 == 3 && len(rs.Files) >= 2 {
			// Another layout (index and recovery file alike): a main packet that
			// lists only the harmless files comes first (same set ID field, so
			// it is not the set's real main packet), then the hostile
			// description, then the real main packet and everything else.
			decoy := par2rw.Main{SliceSize: rs.Main.SliceSize}
			var evilDesc par2rw.Packet
			for i, rf := range rs.Files {
				if rf.Name == name {
					evilDesc = rs.DescPacket(i)
					continue
				}
				decoy.IDs = append(decoy.IDs, rf.ID)
			}
			decoy.NRecovery = uint32(len(decoy.IDs))
			decoyLayout = func(pk []par2rw.Packet) []par2rw.Packet {
				var rest []par2rw.Packet
				for _, q := range pk {
					if q.Type == par2rw.TypeFileDesc && string(q.Body) == string(evilDesc.Body) {
						continue
					}
					rest = append(rest, q)
				}
				return append([]par2rw.Packet{rs.CreatorPacket("ref"), {SetID: rs.SetID, Type: par2rw.TypeMain, Body: decoy.Body()}, evilDesc}, rest...)
			}
			pk = decoyLayout(pk)
			r.Count("archives_with_decoy_main_packet", 1)
		}
		os.WriteFile(idx, par2rw.Serialize(pk), 0644)
		nb := (len(evilData)+15)/16 + 1
		if len(evilData) == 0 {
			// the reference writer gives an empty file no checksum packet body; keep the
			// set otherwise valid by emitting the description only
			nb = 2
		}
		vp := []par2rw.Packet{rs.CreatorPacket("ref")}
		vp = append(vp, critical()...)
		vp = append(vp, uniPackets...)
		for e := 0; e < nb; e++ {
			vp = append(vp, rs.RecvPacket(uint32(e)))
		}
		os.WriteFile(filepath.Join(t.arch, "set.vol00+99.par2"), par2rw.Serialize(decoyLayout(vp)), 0644)
	} else {
		var in []par1rw.InFile
		// Another carrier: the hostile name sits on an entry that is NOT saved in
		// the parity set, placed before the saved ones, and carries the size and
		// hashes of the first saved file, which is missing.
		shadow := p.Seed%5 == 2
		if shadow {
			pos = 0
			victim := par1rw.InFile{Name: "victim.bin", Data: evilData, Saved: true}
			in = append(in, par1rw.InFile{Name: name, Data: evilData, Saved: false}, victim)
			r.Count("archives_with_hostile_non_saved_entry", 1)
		}
		for i := 0; i < nf; i++ {
			if i == pos && shadow {
				continue
			}
			if i == pos {
				in = append(in, par1rw.InFile{Name: name, Data: evilData, Saved: true})
				continue
			}
			f := par1rw.InFile{Name: fmt.Sprintf("good%d.bin", i), Data: scen.GenData(rng, "random", 10+rng.Intn(80), 16), Saved: true}
			in = append(in, f)
			os.WriteFile(filepath.Join(t.arch, f.Name), f.Data, 0644)
		}
		idx = filepath.Join(t.arch, "set.par")
		os.WriteFile(idx, par1rw.Build(in, 0, nil, 0x00010000), 0644)
		for v := 1; v <= 2; v++ {
			os.WriteFile(filepath.Join(t.arch, fmt.Sprintf("set.p%02d", v)), par1rw.Build(in, v, par1rw.Parity(in, v), 0x00010000), 0644)
		}
	}
	desc := fmt.Sprintf("%s name=%q position=%d/%d target-preexists=%v mode=%s", p.Fmt, name, pos, nf, preexist, p.Mode)
	core.Note("C15 %s", desc)
	before := scen.Snapshot(t.root)
	inside := func(rel string) bool {
		// rel is relative to root
		if p.Fmt == "par2" {
			return rel == "work/arch" || strings.HasPrefix(rel, "work/arch/")
		}
		// PAR1: only the directory itself
		return filepath.Dir(rel) == "work/arch"
	}
	judgeSnap := func(op string) {
		for _, d := range scen.DiffSnap(before, scen.Snapshot(t.root)) {
			parts := strings.SplitN(d, " ", 2)
			if !inside(parts[1]) {
				r.Violate("effect-outside-archive-directory|"+op, "%s: %s: %s lies outside the archive's directory", desc, op, d)
			} else {
				r.Count("effects_inside", 1)
			}
		}
	}
	libIdx := idx
	if p.Mode == "lib-parent" {
		wd, _ := os.Getwd()
		defer os.Chdir(wd)
		os.Chdir(filepath.Join(t.arch, "a", "b"))
		libIdx = "../../" + filepath.Base(idx)
	}
	if p.Mode == "lib-bare" {
		wd, _ := os.Getwd()
		defer os.Chdir(wd)
		os.Chdir(t.arch)
		libIdx = filepath.Base(idx)
	}
	if p.Mode == "lib" || p.Mode == "lib-bare" || p.Mode == "lib-parent" {
		idx := libIdx
		var verr, rerr error
		var pi *core.PanicInfo
		if p.Fmt == "par2" {
			pi = core.Protect(func() { _, verr = par2.Verify(idx, par2.VerifyOptions{NumGoroutines: 1}) })
		} else {
			pi = core.Protect(func() { _, verr = par1.Verify(idx, par1.VerifyOptions{}) })
		}
		if pi != nil {
			r.Violate(core.CrashSig(p.Fmt+".Verify", pi.Frame, pi.Msg), "%s: Verify panicked: %s", desc, pi.Msg)
		}
		judgeSnap("verify")
		if p.Fmt == "par2" {
			pi = core.Protect(func() { _, rerr = par2.Repair(idx, par2.RepairOptions{NumGoroutines: 1}) })
		} else {
			pi = core.Protect(func() { _, rerr = par1.Repair(idx, par1.RepairOptions{}) })
		}
		if pi != nil {
			r.Violate(core.CrashSig(p.Fmt+".Repair", pi.Frame, pi.Msg), "%s: Repair panicked: %s", desc, pi.Msg)
		}
		judgeSnap("repair")
		r.Count("library_runs", 1)
		if verr != nil {
			r.Count("verify_rejected", 1)
		}
		if rerr != nil {
			r.Count("repair_rejected", 1)
		} else {
			r.Count("repair_accepted", 1)
		}
		r.Sample(map[string]interface{}{"format": p.Fmt, "name": name, "position": pos, "files": nf, "mode": p.Mode, "verify_error": fmt.Sprint(verr), "repair_error": fmt.Sprint(rerr)})
	} else {
		parExe := os.Getenv("VW_PAR_EXE")
		if parExe == "" {
			r.Inconclusive("par binary not built")
			return r.Done()
		}
		for _, op := range []string{"v", "r"} {
			// run from an unrelated cwd (the sibling) with an absolute index path
			cwd, idxArg := filepath.Join(t.work, "sibling"), idx
			if p.Mode == "cli-bare" {
				cwd, idxArg = t.arch, filepath.Base(idx)
			}
			if p.Mode == "cli-parent" {
				cwd, idxArg = filepath.Join(t.arch, "sub"), "../"+filepath.Base(idx)
			}
			tr := mon.Trace(cwd, []string{parExe, op, idxArg}, nil)
			if tr.Err != nil {
				r.Inconclusive("strace: %v", tr.Err)
				return r.Done()
			}
			r.Count("strace_events", int64(len(tr.Events)))
			for _, ev := range mon.Mutations(tr.Events) {
				for _, pth := range []string{ev.Path, ev.Path2} {
					if pth == "" || !strings.HasPrefix(pth, t.root) {
						continue
					}
					rel, _ := filepath.Rel(t.root, pth)
					if !inside(rel) {
						if ev.OK {
							r.Violate("syscall-outside-archive-directory|"+op, "%s: par %s: %s(%q) = %s succeeded outside the archive's directory", desc, op, ev.Call, pth, ev.Ret)
						} else {
							r.Count("failed_attempts_outside", 1)
						}
					}
				}
			}
			// reads: the archive must not make the program open files outside
			// its directory either (their content would flow into results)
			for _, ev := range tr.Events {
				if ev.Mutates || (ev.Call != "openat" && ev.Call != "open") || ev.Path == "" || !strings.HasPrefix(ev.Path, t.root+"/") {
					continue
				}
				rel, _ := filepath.Rel(t.root, ev.Path)
				if inside(rel) || rel == "work/arch" {
					continue
				}
				if st, err := os.Stat(ev.Path); err == nil && st.IsDir() {
					continue
				}
				if ev.OK {
					r.Violate("read-outside-archive-directory|"+op, "%s: par %s opened %q, which lies outside the archive's directory, for reading", desc, op, ev.Path)
				} else {
					r.Count("failed_read_attempts_outside", 1)
				}
			}
			judgeSnap("cli-" + op)
			r.Count("cli_runs", 1)
		}
		r.Sample(map[string]interface{}{"format": p.Fmt, "name": name, "position": pos, "files": nf, "mode": p.Mode + "+strace"})
	}
	r.Key("%s|%q|pos=%d|%s|pre=%v", p.Fmt, name, pos, p.Mode, preexist)
	return r.Done()
}

func (c *c15) runCreate(r *core.R, t *canaryTree, rng *rand.Rand) {
	os.WriteFile(filepath.Join(t.arch, "in.bin"), scen.Garbage(rng, 50), 0644)
	outside := [][]string{
		{filepath.Join(t.work, "x")},
		{filepath.Join(t.arch, "in.bin"), filepath.Join(t.work, "x")},
		{filepath.Join(t.arch, "in.bin"), t.arch + "/../x"},
		{filepath.Join(t.arch, "in.bin"), t.arch + "/sub/../../x"},
		{filepath.Join(t.root, "canary", "x")},
		{filepath.Join(t.arch, "in.bin"), filepath.Join(t.work, "sibling", "x")},
		{filepath.Join(t.arch, "in.bin"), filepath.Join(t.root, "x")},
		// sibling directories whose names merely extend the index directory's name
		{filepath.Join(t.arch, "in.bin"), filepath.Join(t.work, "arch-old", "x")},
		{filepath.Join(t.work, "arch2", "x")},
		{filepath.Join(t.arch, "in.bin"), filepath.Join(t.work, "arch.bak", "x")},
		{filepath.Join(t.arch, "in.bin"), filepath.Join(t.work, "archive", "x")},
	}
	for _, d := range []string{"arch-old", "arch2", "arch.bak", "archive"} {
		os.MkdirAll(filepath.Join(t.work, d), 0755)
		os.WriteFile(filepath.Join(t.work, d, "x"), []byte("sibling decoy "+d), 0644)
	}
	before := scen.Snapshot(t.root)
	for i, files := range outside {
		idx := filepath.Join(t.arch, fmt.Sprintf("c%d.par2", i))
		var err error
		if pi := core.Protect(func() {
			err = par2.Create(idx, files, par2.CreateOptions{SliceByteCount: 8, NumParityShards: 2, NumGoroutines: 1})
		}); pi != nil {
			r.Violate(core.CrashSig("par2.Create", pi.Frame, pi.Msg), "Create with outside input panicked: %s", pi.Msg)
			continue
		}
		if err == nil {
			r.Violate("create-accepts-file-outside-index-directory", "par2.Create(%q, %q) succeeded although an input lies outside the index file's directory tree", idx, files)
		}
		r.Key("create-outside|%d", i)
		r.Count("create_refusals", 1)
	}
	for _, d := range scen.DiffSnap(before, scen.Snapshot(t.root)) {
		if !strings.Contains(d, " work/arch/") {
			r.Violate("effect-outside-archive-directory|create", "Create: %s", d)
		}
	}
	// relative spellings with cwd inside the archive directory
	r.Sample(map[string]interface{}{"mode": "create", "outside_input_sets": len(outside)})
}
