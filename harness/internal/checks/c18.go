package checks

import (
	"fmt"
	"io"
	"math/rand"
	"os"
	"os/exec"
	"path/filepath"
	"reflect"
	"sort"
	"strings"

	"github.com/akalin/gopar/par1"
	"github.com/akalin/gopar/par2"

	"verifharness/internal/core"
	"verifharness/internal/mon"
	"verifharness/internal/ref/par1rw"
	"verifharness/internal/ref/par2rw"
	"verifharness/internal/scen"
)

// C18 — I/O failures are reported, never swallowed, never worsen the data.

type c18 struct{ base }

type c18Params struct {
	Seed  int64  `json:"seed"`
	Fmt   string `json:"fmt"`
	Op    string `json:"op"`
	State string `json:"state"`
	Layer string `json:"layer"` // seam | strace
	Pairs bool   `json:"pairs"`
}

func init() {
	register(&c18{base{
		id:          "C18",
		level:       lvlFaultEnum,
		rule:        "for each (format, operation in {create, verify, repair, repair+doublecheck}, archive state in {intact, one file damaged, several damaged, all-slices-present-but-mangled, volume missing}) one recording run through the file-system seam yields the I/O call sequence (N calls) and the fault-free reference outcome; then a fault is injected at EVERY call index x EVERY kind (reads/listings: error; writes: error without effect, error after truncation to zero, error after a partial prefix), singly, and in pairs (all pairs for N <= 12, seeded pairs above). Per faulted run: the operation must return an error; RepairedPaths must list only files whose write completed; only files with a write event in THIS run may differ from the pre-run snapshot, and completed repair writes must be exact originals; then the fault is removed and the operation re-run: it must reach the reference outcome (same result, same final directory) unless the torn write itself pushed the damage beyond the remaining capacity, which the harness recomputes from the bytes on disk. A second layer injects errno faults into openat/read/write/getdents64 of the real par binary with strace. A key is (format, op, state, call index, kind[, second index]). Fault kind open-fails (reads, listings, writes): gopar's real file-system code runs while the process has no free descriptor, so open fails inside the code under test; a file whose only write-open failed must be unchanged. Recording delegates: a success report for a path whose write did not complete is a violation. State unwritable-target: a protected file is a symbolic link into a deleted directory; nil without injected faults must mean restored. Also: a read that fails while ONE Encoder loads its inputs, then the same Encoder loads again: what it writes must equal an undisturbed Create.. Injected faults reach the code as *os.PathError values (read/EIO, write/ENOSPC, readdirent/EIO); create with a vanished input and with one below a regular file through the binary.",
		assumptions: append([]string{"a read that fails with a non-existence error is damage, every other injected failure must surface as an error"}, commonAssumptions...),
		opts:        core.WorkerOpts{CrashIsViolation: true, WallSeconds: 2400},
	}})
}

func (c *c18) Cases(tier string, seed int64) []core.Case {
	var cs []core.Case
	r := core.Rng("C18", tier, seed)
	nsets := map[string]int{"quick": 1, "thorough": 12}[tier]
	for s := 0; s < nsets; s++ {
		for _, f := range []string{"par2", "par1"} {
			for _, st := range []string{"intact", "one-damaged", "several-damaged", "mangled", "volume-missing"} {
				if f == "par1" && st == "mangled" {
					continue
				}
				for _, op := range []string{"verify", "repair", "repair-dc"} {
					cs = append(cs, core.MkCase(fmt.Sprintf("%s-%s-%s-s%d", f, op, st, s), c18Params{r.Int63(), f, op, st, "seam", false}))
					cs = append(cs, core.MkCase(fmt.Sprintf("%s-%s-%s-pairs-s%d", f, op, st, s), c18Params{r.Int63(), f, op, st, "seam", true}))
				}
			}
			for _, op := range []string{"repair", "repair-dc"} {
				cs = append(cs, core.MkCase(fmt.Sprintf("%s-%s-unwritable-target-s%d", f, op, s), c18Params{r.Int63(), f, op, "unwritable-target", "seam", false}))
			}
			cs = append(cs, core.MkCase(fmt.Sprintf("%s-encoder-retry-s%d", f, s), c18Params{r.Int63(), f, "encoder-retry", "inputs", "seam", false}))
			cs = append(cs, core.MkCase(fmt.Sprintf("%s-create-s%d", f, s), c18Params{r.Int63(), f, "create", "inputs", "seam", false}))
			for _, nb := range []int{2, 4, 5, 6} {
				// block counts that are not 2^k-1 end in a partial last volume
				cs = append(cs, core.MkCase(fmt.Sprintf("%s-create-b%d-s%d", f, nb, s), c18Params{r.Int63(), f, "create", fmt.Sprintf("inputs-b%d", nb), "seam", false}))
			}
			cs = append(cs, core.MkCase(fmt.Sprintf("%s-create-pairs-s%d", f, s), c18Params{r.Int63(), f, "create", "inputs", "seam", true}))
			for _, st := range []string{"one-damaged", "several-damaged", "intact"} {
				for _, op := range []string{"verify", "repair", "create"} {
					cs = append(cs, core.MkCase(fmt.Sprintf("%s-%s-%s-strace-s%d", f, op, st, s), c18Params{r.Int63(), f, op, st, "strace", false}))
				}
			}
		}
	}
	return cs
}

func copyTree(src, dst string) error {
	return filepath.Walk(src, func(p string, info os.FileInfo, err error) error {
		if err != nil {
			return err
		}
		rel, _ := filepath.Rel(src, p)
		t := filepath.Join(dst, rel)
		if info.IsDir() {
			return os.MkdirAll(t, 0755)
		}
		if info.Mode()&os.ModeSymlink != 0 {
			target, err := os.Readlink(p)
			if err != nil {
				return err
			}
			return os.Symlink(target, t)
		}
		in, err := os.Open(p)
		if err != nil {
			return err
		}
		defer in.Close()
		out, err := os.Create(t)
		if err != nil {
			return err
		}
		defer out.Close()
		_, err = io.Copy(out, in)
		return err
	})
}

// c18World is a template directory plus what is needed to judge runs.
type c18World struct {
	fmt     string
	root    string
	tmpl    string // template of the archive state
	files   []scen.File
	slice   int
	blocks  int
	setID   [16]byte
	dataRel []string // relative paths of data files
	idxName string
	order   map[scen.SliceRef]int
	consts  *par2rw.RefSet
}

func (w *c18World) close() { os.RemoveAll(w.root) }

// newC18WorldN builds an intact archive with n files (n == 3 gives the
// standard small world).
func newC18WorldN(format string, seed int64, n int) (*c18World, error) {
	c18ExtraFiles = n - 3
	defer func() { c18ExtraFiles = 0 }()
	return newC18World(format, seed, "intact", false)
}

var c18ExtraFiles int
var c18Content string

func newC18World(format string, seed int64, state string, forCreate bool) (*c18World, error) {
	rng := rand.New(rand.NewSource(seed))
	root, err := os.MkdirTemp("", "c18-")
	if err != nil {
		return nil, err
	}
	w := &c18World{fmt: format, root: root, tmpl: filepath.Join(root, "tmpl")}
	dir := filepath.Join(w.tmpl, "set")
	os.MkdirAll(dir, 0755)
	if format == "par2" {
		w.slice, w.blocks = 16, 3
		w.idxName = "a.par2"
		for i, n := range []int{70, 33, 48} {
			w.files = append(w.files, scen.File{Name: []string{"f0.bin", "sub/f1.bin", "f0.bin.tmp"}[i], Data: scen.GenData(rng, "random", n, 16)})
		}
		// f1 ends in a zero byte inside its short last slice
		w.files[1].Data[32] = 0
		if c18Content == "dup" {
			// duplicate slices inside and across files: f0 = A B A c, f2 = B B D
			a, b := w.files[0].Data[0:16], w.files[0].Data[16:32]
			copy(w.files[0].Data[32:48], a)
			copy(w.files[2].Data[0:16], b)
			copy(w.files[2].Data[16:32], b)
		}
	} else {
		w.blocks = 2
		w.idxName = "a.par"
		for i, n := range []int{60, 0, 35} {
			w.files = append(w.files, scen.File{Name: []string{"f0 x.bin", "f1.bin", "f0 x.bin.tmp"}[i], Data: scen.GenData(rng, "random", n, 16)})
		}
	}
	for i := 0; i < c18ExtraFiles; i++ {
		// names a program might pick for its temporary or backup copies of f0
		// are names of protected files, too
		w.files = append(w.files, scen.File{Name: w.files[0].Name + []string{"~", ".bak", ".new", ".part", ".1", ".orig", ".swp"}[i%7] + strings.Repeat("_", i/7), Data: scen.GenData(rng, "random", 20+rng.Intn(60), 16)})
	}
	if c18ExtraFiles > 0 {
		w.blocks = 4
	}
	var paths []string
	for _, f := range w.files {
		p := filepath.Join(dir, filepath.FromSlash(f.Name))
		os.MkdirAll(filepath.Dir(p), 0755)
		os.WriteFile(p, f.Data, 0644)
		paths = append(paths, p)
		w.dataRel = append(w.dataRel, filepath.FromSlash(f.Name))
	}
	if format == "par2" {
		var in []par2rw.InFile
		for _, f := range w.files {
			in = append(in, par2rw.InFile{Name: f.Name, Data: f.Data})
		}
		w.consts = par2rw.BuildSet(w.slice, in)
		w.setID = w.consts.SetID
		w.order = map[scen.SliceRef]int{}
		k := 0
		for _, rf := range w.consts.Files {
			for fi, f := range w.files {
				if f.Name == rf.Name {
					for i := range rf.Slices {
						w.order[scen.SliceRef{F: fi, I: i}] = k
						k++
					}
				}
			}
		}
	}
	if forCreate {
		return w, nil
	}
	idx := filepath.Join(dir, w.idxName)
	if format == "par2" {
		err = par2.Create(idx, paths, par2.CreateOptions{SliceByteCount: w.slice, NumParityShards: w.blocks, NumGoroutines: 2})
	} else {
		err = par1.Create(idx, paths, par1.CreateOptions{NumParityFiles: w.blocks})
	}
	if err != nil {
		return w, err
	}
	flip := func(i int) {
		b := append([]byte(nil), w.files[i].Data...)
		if len(b) == 0 {
			b = []byte{9}
		} else {
			b[len(b)/2] ^= 0x44
		}
		os.WriteFile(paths[i], b, 0644)
	}
	switch state {
	case "one-damaged":
		flip(0)
	case "several-damaged":
		// two files to rewrite, within capacity (PAR2: 3 blocks; PAR1: 2 volumes)
		if format == "par2" {
			flip(2)
		} else {
			os.Remove(paths[2])
		}
		flip(0)
	case "unwritable-target":
		// a protected file that is missing AND cannot be written: a symbolic
		// link into a directory that does not exist (PAR2: the 3-slice file)
		k := map[string]int{"par2": 1, "par1": 0}[format]
		os.Remove(paths[k])
		os.Symlink(filepath.Join(root, "gone", "away", "target"), paths[k])
	case "mangled":
		os.WriteFile(paths[0], append(append([]byte(nil), w.files[0].Data...), 1, 2, 3), 0644)
	case "volume-missing":
		flip(2)
		if format == "par2" {
			os.Remove(filepath.Join(dir, "a.vol00+01.par2"))
		} else {
			os.Remove(filepath.Join(dir, "a.p01"))
		}
	}
	return w, nil
}

// c18Outcome is what one run produced.
type c18Outcome struct {
	err      error
	panicked *core.PanicInfo
	result   string   // rendering of the result value
	repaired []string // cleaned paths
	events   []mon.IOEvent
	snap     map[string]string
	// what the operation told its delegate (the CLI prints this) about
	// each file it wrote
	reports []c18Report
}

type c18Report struct {
	path string
	err  error
}

type c18Reports struct{ list *[]c18Report }

func (c c18Reports) add(path string, err error) {
	*c.list = append(*c.list, c18Report{filepath.Clean(path), err})
}

type c18P2CreateDelegate struct {
	par2.DoNothingCreateDelegate
	c18Reports
}

func (d c18P2CreateDelegate) OnIndexFileWrite(path string, byteCount int, err error) {
	d.add(path, err)
}
func (d c18P2CreateDelegate) OnRecoveryFileWrite(start, count, total int, path string, dataByteCount, byteCount int, err error) {
	d.add(path, err)
}

type c18P2RepairDelegate struct {
	par2.DoNothingRepairDelegate
	c18Reports
}

func (d c18P2RepairDelegate) OnDataFileWrite(i, n int, path string, byteCount int, err error) {
	d.add(path, err)
}

type c18P1CreateDelegate struct {
	par1.DoNothingCreateDelegate
	c18Reports
}

func (d c18P1CreateDelegate) OnVolumeFileWrite(i, n int, path string, dataByteCount, byteCount int, err error) {
	d.add(path, err)
}

type c18P1RepairDelegate struct {
	par1.DoNothingRepairDelegate
	c18Reports
}

func (d c18P1RepairDelegate) OnDataFileWrite(i, n int, path string, byteCount int, err error) {
	d.add(path, err)
}

func (w *c18World) run(dir, op string, faults []mon.Fault) c18Outcome {
	var o c18Outcome
	setDir := filepath.Join(dir, "set")
	idx := filepath.Join(setDir, w.idxName)
	var paths []string
	for _, rel := range w.dataRel {
		paths = append(paths, filepath.Join(setDir, rel))
	}
	rep := c18Reports{&o.reports}
	if w.fmt == "par2" {
		rec := &mon.RecFS{Inner: par2.VerifDefaultFileIO{}, Faults: faults}
		o.panicked = core.Protect(func() {
			switch op {
			case "create":
				o.err = par2.VerifCreate(rec, idx, paths, par2.CreateOptions{SliceByteCount: w.slice, NumParityShards: w.blocks, NumGoroutines: 2, CreateDelegate: c18P2CreateDelegate{c18Reports: rep}})
			case "verify":
				var vr par2.VerifyResult
				vr, o.err = par2.VerifVerify(rec, idx, par2.VerifyOptions{NumGoroutines: 2})
				o.result = fmt.Sprintf("%+v", vr)
			default:
				var rr par2.RepairResult
				rr, o.err = par2.VerifRepair(rec, idx, par2.RepairOptions{NumGoroutines: 2, DoubleCheck: op == "repair-dc", RepairDelegate: c18P2RepairDelegate{c18Reports: rep}})
				for _, p := range rr.RepairedPaths {
					o.repaired = append(o.repaired, filepath.Clean(p))
				}
			}
		})
		o.events = rec.Events
	} else {
		rec := &mon.RecFS{Inner: par1.VerifDefaultFileIO{}, Faults: faults}
		o.panicked = core.Protect(func() {
			switch op {
			case "create":
				o.err = par1.VerifCreate(rec, idx, paths, par1.CreateOptions{NumParityFiles: w.blocks, CreateDelegate: c18P1CreateDelegate{c18Reports: rep}})
			case "verify":
				var vr par1.VerifyResult
				vr, o.err = par1.VerifVerify(rec, idx, par1.VerifyOptions{VerifyAllData: true})
				o.result = fmt.Sprintf("%+v", vr)
			default:
				var rr par1.RepairResult
				rr, o.err = par1.VerifRepair(rec, idx, par1.RepairOptions{DoubleCheck: op == "repair-dc", RepairDelegate: c18P1RepairDelegate{c18Reports: rep}})
				for _, p := range rr.RepairedPaths {
					o.repaired = append(o.repaired, filepath.Clean(p))
				}
			}
		})
		o.events = rec.Events
	}
	sort.Strings(o.repaired)
	o.snap = scen.Snapshot(dir)
	return o
}

// withinCapacity recomputes from the bytes on disk whether repair must
// succeed.
func (w *c18World) withinCapacity(dir string) bool {
	setDir := filepath.Join(dir, "set")
	set := scen.Set{Files: w.files, SliceSize: w.slice}
	if w.fmt == "par2" {
		st := scen.NewState(set)
		for i, rel := range w.dataRel {
			b, err := os.ReadFile(filepath.Join(setDir, rel))
			if err != nil {
				st.Cur[i] = scen.CurFile{}
			} else {
				st.Cur[i] = scen.CurFile{Present: true, Segs: []scen.Seg{{F: -1, Len: len(b), G: b}}}
			}
		}
		_, skip := st.Find()
		env := &p2env{dir: setDir, idx: filepath.Join(setDir, w.idxName), set: set, ref: w.consts, order: w.order}
		exps := env.availableExponents()
		mE := missingOf(st.AllSlices(), skip, w.order)
		if len(mE) > len(exps) {
			return false
		}
		return !env.forcedSingular(mE, exps)
	}
	var missing, avail []int
	for i, rel := range w.dataRel {
		b, err := os.ReadFile(filepath.Join(setDir, rel))
		if err != nil || string(b) != string(w.files[i].Data) {
			missing = append(missing, i)
		}
	}
	for v := 1; v <= w.blocks; v++ {
		b, err := os.ReadFile(filepath.Join(setDir, fmt.Sprintf("a.p%02d", v)))
		if err != nil {
			continue
		}
		if vol, pr := par1rw.Parse(b); vol != nil && len(pr) == 0 {
			avail = append(avail, v)
		}
	}
	if len(missing) > len(avail) {
		return false
	}
	return !par1rw.ForcedSingular(missing, avail[:len(missing)])
}

func (w *c18World) originalsIntact(dir string) []string {
	var bad []string
	for i, rel := range w.dataRel {
		b, err := os.ReadFile(filepath.Join(dir, "set", rel))
		if err != nil || string(b) != string(w.files[i].Data) {
			bad = append(bad, rel)
		}
	}
	return bad
}

func (c *c18) Run(cs core.Case) core.Result {
	var p c18Params
	core.Decode(cs, &p)
	r := core.NewR(cs)
	if p.Op == "encoder-retry" {
		// a read fails (the file is away) while one Encoder loads the inputs;
		// the fault goes away and the SAME Encoder loads again: what it then
		// writes must be what an undisturbed Create writes
		rng := rand.New(rand.NewSource(p.Seed))
		for k := 0; k < 6; k++ {
			encoderHistoryDifferential(r, p.Fmt, "retry-after-missing-input", "rerun-differs-from-fault-free-run|create", rng)
		}
		return r.Done()
	}
	w, err := newC18World(p.Fmt, p.Seed, p.State, p.Op == "create")
	if w != nil {
		defer w.close()
		var nb int
		if _, e := fmt.Sscanf(p.State, "inputs-b%d", &nb); e == nil && nb > 0 {
			w.blocks = nb
		}
	}
	if err != nil {
		r.Violate("setup-create-failed", "%v", err)
		return r.Done()
	}
	if p.Layer == "strace" {
		c.runStrace(r, w, p)
		return r.Done()
	}
	fresh := func(name string) string {
		d := filepath.Join(w.root, name)
		os.RemoveAll(d)
		copyTree(w.tmpl, d)
		return d
	}
	// Reference run.
	refDir := fresh("ref")
	pre := scen.Snapshot(refDir)
	ref := w.run(refDir, p.Op, nil)
	if ref.panicked != nil {
		r.Violate(core.CrashSig(p.Fmt+"."+p.Op, ref.panicked.Frame, ref.panicked.Msg), "fault-free run panicked: %s", ref.panicked.Msg)
		return r.Done()
	}
	// The fault-free run meets the file system's own failures (state
	// unwritable-target): a nil result still means everything is in order.
	if strings.HasPrefix(p.Op, "repair") && ref.err == nil {
		if bad := w.originalsIntact(refDir); len(bad) > 0 {
			r.Violate("repair-nil-but-files-differ|"+p.Op, "%s %s [%s] without injected faults: Repair returned nil but %v are not the originals (write events: %v)", p.Fmt, p.Op, p.State, bad, writeSummary(ref.events))
		}
	}
	r.SetAdd("fault_free_outcomes", fmt.Sprintf("%s|%s|%v", p.Op, p.State, ref.err))
	n := len(ref.events)
	if n == 0 {
		r.Inconclusive("recording run observed no I/O call")
		return r.Done()
	}
	kindsFor := func(ev mon.IOEvent) []string {
		if ev.Op == "write" {
			return []string{"error", "write-zero", "write-partial", "open-fails"}
		}
		return []string{"error", "open-fails"}
	}
	var plans [][]mon.Fault
	if !p.Pairs {
		for i, ev := range ref.events {
			for _, k := range kindsFor(ev) {
				plans = append(plans, []mon.Fault{{At: i, Kind: k}})
			}
		}
	} else {
		rng := rand.New(rand.NewSource(p.Seed))
		add := func(i, j int) {
			ki := kindsFor(ref.events[i])
			// the second index refers to the call sequence of the faulted run,
			// which may differ after the first fault; any kind is acceptable there
			kj := []string{"error", "write-zero", "write-partial"}
			plans = append(plans, []mon.Fault{{At: i, Kind: ki[rng.Intn(len(ki))]}, {At: j, Kind: kj[rng.Intn(len(kj))]}})
		}
		if n <= 12 {
			for i := 0; i < n; i++ {
				for j := i + 1; j < n+2; j++ {
					add(i, j)
				}
			}
		} else {
			for t := 0; t < 150; t++ {
				i := rng.Intn(n)
				add(i, i+1+rng.Intn(n-i+1))
			}
		}
	}
	work := filepath.Join(w.root, "work")
	for pi, plan := range plans {
		if !core.Sub(pi) {
			continue
		}
		os.RemoveAll(work)
		copyTree(w.tmpl, work)
		desc := fmt.Sprintf("%s %s [%s] faults=%v (fault-free run: %d calls, err=%v)", p.Fmt, p.Op, p.State, plan, n, ref.err)
		core.Note("C18 %s", desc)
		out := w.run(work, p.Op, plan)
		r.Count("faulted_runs", 1)
		if out.panicked != nil {
			r.Violate(core.CrashSig(p.Fmt+"."+p.Op, out.panicked.Frame, out.panicked.Msg), "%s: panic %s", desc, out.panicked.Msg)
			continue
		}
		// Which faults actually hit?
		var hit []mon.IOEvent
		for _, ev := range out.events {
			if ev.Injected != "" {
				hit = append(hit, ev)
			}
		}
		if len(hit) == 0 {
			r.Count("fault_not_reached", 1)
			continue
		}
		r.Count("faults_hit", int64(len(hit)))
		if out.err == nil {
			r.Violate("io-error-swallowed|"+p.Op+"|"+hit[0].Op, "%s: call #%d %s(%q) failed with an injected %s but the operation returned nil", desc, hit[0].N, hit[0].Op, filepath.Base(hit[0].Path), hit[0].Injected)
		}
		// writes of this run
		wrote := map[string]bool{}
		completed := map[string]bool{}
		for _, ev := range out.events {
			if ev.Op == "write" {
				rel, _ := filepath.Rel(work, ev.Path)
				wrote[rel] = true
				if ev.Err == "" {
					completed[filepath.Clean(ev.Path)] = true
				} else {
					delete(completed, filepath.Clean(ev.Path))
				}
			}
		}
		for _, rp := range out.repaired {
			if !completed[rp] {
				r.Violate("repaired-path-without-completed-write|"+p.Op, "%s: RepairedPaths lists %q, whose write did not complete (write events: %v)", desc, filepath.Base(rp), writeSummary(out.events))
			}
		}
		// A write whose open failed inside the real file-system code has
		// written nothing: its target is exactly what it was.
		for _, ev := range hit {
			if ev.Op == "write" && ev.Injected == "open-fails" {
				rel, _ := filepath.Rel(work, ev.Path)
				others := 0
				for _, e2 := range out.events {
					if e2.Op == "write" && e2.Path == ev.Path && e2.N != ev.N {
						others++
					}
				}
				if others > 0 {
					continue
				}
				r.Count("failed_write_opens_checked", 1)
				if pre[rel] != out.snap[rel] {
					r.Violate("file-altered-although-its-write-open-failed|"+p.Op, "%s: the open-for-writing of %s failed (%s), yet the file changed from %q to %q", desc, rel, ev.Err, pre[rel], out.snap[rel])
				}
			}
		}
		for _, rp := range out.reports {
			r.Count("write_reports_checked", 1)
			if rp.err == nil && !completed[rp.path] {
				r.Violate("success-reported-for-incomplete-write|"+p.Op, "%s: the delegate was told that %q was written without error, but its write did not complete (write events: %v)", desc, filepath.Base(rp.path), writeSummary(out.events))
			}
		}
		for _, d := range scen.DiffSnap(pre, out.snap) {
			parts := strings.SplitN(d, " ", 2)
			if !wrote[parts[1]] {
				r.Violate("file-not-being-written-was-altered|"+p.Op, "%s: %s, but no write call of this run targets it", desc, d)
			}
		}
		if strings.HasPrefix(p.Op, "repair") {
			for path := range completed {
				rel, _ := filepath.Rel(filepath.Join(work, "set"), path)
				for i, dr := range w.dataRel {
					if dr == rel {
						if b, err := os.ReadFile(path); err != nil || string(b) != string(w.files[i].Data) {
							r.Violate("completed-write-not-original|"+p.Op, "%s: %s was written completely but is not the original", desc, rel)
						}
					}
				}
			}
		}
		// Remove the fault and rerun.
		capOK := true
		if strings.HasPrefix(p.Op, "repair") {
			capOK = w.withinCapacity(work)
			if ref.err != nil && p.State == "unwritable-target" {
				// the fault-free operation fails by itself here (the target
				// cannot be written): the rerun may fail the same way, and a
				// nil result is held to the truth below
				capOK = false
			}
		}
		again := w.run(work, p.Op, nil)
		r.Count("reruns", 1)
		if again.panicked != nil {
			r.Violate(core.CrashSig(p.Fmt+"."+p.Op, again.panicked.Frame, again.panicked.Msg), "%s: rerun after the fault panicked: %s", desc, again.panicked.Msg)
			continue
		}
		switch {
		case p.Op == "create" || p.Op == "verify":
			if (again.err == nil) != (ref.err == nil) || again.result != ref.result || !reflect.DeepEqual(again.snap, ref.snap) {
				r.Violate("rerun-differs-from-fault-free-run|"+p.Op, "%s: after removing the fault the rerun gives err=%v result=%s, fault-free run gave err=%v result=%s; directory differences: %v", desc, again.err, again.result, ref.err, ref.result, scen.DiffSnap(ref.snap, again.snap))
			}
		default:
			if capOK {
				if again.err != nil {
					r.Violate("rerun-fails-within-capacity|"+p.Op, "%s: fault removed, damage still within capacity (recomputed from disk), but Repair returns %v", desc, again.err)
				} else if bad := w.originalsIntact(work); len(bad) > 0 {
					r.Violate("rerun-leaves-wrong-files|"+p.Op, "%s: rerun returned nil but %v differ", desc, bad)
				} else if ref.err == nil && !reflect.DeepEqual(again.snap, ref.snap) {
					r.Violate("rerun-differs-from-fault-free-run|"+p.Op, "%s: directory after rerun differs from the fault-free outcome: %v", desc, scen.DiffSnap(ref.snap, again.snap))
				}
			} else {
				r.Count("torn_write_exceeded_capacity", 1)
				if again.err == nil {
					if bad := w.originalsIntact(work); len(bad) > 0 {
						r.Violate("rerun-leaves-wrong-files|"+p.Op, "%s: %v", desc, bad)
					}
				}
			}
		}
		r.Key("%s|%s|%s|%v", p.Fmt, p.Op, p.State, plan)
	}
	var seq []string
	for _, ev := range ref.events {
		seq = append(seq, fmt.Sprintf("%s:%s", ev.Op, filepath.Base(ev.Path)))
	}
	if len(seq) > 16 {
		seq = append(seq[:16], fmt.Sprintf("… %d more", len(seq)-16))
	}
	r.Sample(map[string]interface{}{"format": p.Fmt, "op": p.Op, "state": p.State, "io_calls": n, "plans": len(plans), "pairs": p.Pairs, "sequence": seq, "fault_free_error": fmt.Sprint(ref.err)})
	return r.Done()
}

func writeSummary(evs []mon.IOEvent) []string {
	var out []string
	for _, e := range evs {
		if e.Op == "write" {
			out = append(out, fmt.Sprintf("#%d %s err=%q", e.N, filepath.Base(e.Path), e.Err))
		}
	}
	return out
}

// runStrace injects errno faults into the real binary.
func (c *c18) runStrace(r *core.R, w *c18World, p c18Params) {
	parExe := os.Getenv("VW_PAR_EXE")
	if parExe == "" {
		r.Inconclusive("par binary not built")
		return
	}
	rng := rand.New(rand.NewSource(p.Seed))
	work := filepath.Join(w.root, "work")
	setDir := filepath.Join(work, "set")
	args := func() []string {
		switch p.Op {
		case "create":
			a := []string{parExe, "c", "-s", fmt.Sprint(maxi(w.slice, 4)), "-c", fmt.Sprint(w.blocks), filepath.Join(setDir, w.idxName)}
			for _, rel := range w.dataRel {
				a = append(a, filepath.Join(setDir, rel))
			}
			return a
		case "verify":
			return []string{parExe, "v", filepath.Join(setDir, w.idxName)}
		}
		return []string{parExe, "r", filepath.Join(setDir, w.idxName)}
	}
	if p.Op == "create" {
		// Failures that need no injection: an input that does not exist, or lies
		// below a regular file (ENOTDIR), among good ones. Create has to fail.
		for _, bad := range []string{"vanished.bin", w.dataRel[0] + "/below-a-file.bin"} {
			os.RemoveAll(work)
			copyTree(w.tmpl, work)
			a := args()
			a = append(a, filepath.Join(setDir, bad))
			cmd := exec.Command(a[0], a[1:]...)
			cmd.Dir = work
			out, err := cmd.CombinedOutput()
			r.Count("create_with_unreadable_input_runs", 1)
			if err == nil {
				r.Violate("io-error-swallowed|create|missing-input", "%s create: the listed input %q cannot be read, yet par exited 0; output tail: %s", p.Fmt, bad, tailStr(string(out), 400))
			}
		}
	}
	type inj struct{ call, errno string }
	injs := []inj{{"openat", "EIO"}, {"openat", "EACCES"}, {"openat", "EMFILE"}, {"read", "EIO"}, {"write", "ENOSPC"}, {"write", "EIO"}, {"getdents64", "EIO"}, {"fstat", "EIO"}, {"newfstatat", "EIO"}, {"close", "EIO"}}
	trial := 0
	for _, in := range injs {
		for when := 1; when <= 6; when++ {
			trial++
			if !core.Sub(trial) {
				continue
			}
			os.RemoveAll(work)
			copyTree(w.tmpl, work)
			if p.Op == "create" {
				// start from inputs only
				ents, _ := os.ReadDir(setDir)
				for _, e := range ents {
					if strings.HasPrefix(e.Name(), "a.") {
						os.Remove(filepath.Join(setDir, e.Name()))
					}
				}
			}
			pre := scen.Snapshot(work)
			spec := fmt.Sprintf("inject=%s:error=%s:when=%d", in.call, in.errno, when)
			// restrict injection to paths below the set directory
			var extra []string
			for _, rel := range w.dataRel {
				extra = append(extra, filepath.Join(setDir, rel))
			}
			for _, n := range []string{"a.par2", "a.vol00+01.par2", "a.vol01+02.par2", "a.par", "a.p01", "a.p02"} {
				extra = append(extra, filepath.Join(setDir, n))
			}
			tr := mon.TraceInject(work, args(), spec, setDir, extra)
			if tr.Err != nil {
				r.Inconclusive("strace: %v", tr.Err)
				return
			}
			r.Count("strace_runs", 1)
			desc := fmt.Sprintf("%s %s [%s] %s on paths under the set directory", p.Fmt, p.Op, p.State, spec)
			if tr.Injected == 0 {
				r.Count("fault_not_reached", 1)
				continue
			}
			r.Count("faults_hit", int64(tr.Injected))
			_ = rng
			if tr.Signal != "" || strings.Contains(tr.Output, "panic:") || strings.Contains(tr.Output, "fatal error:") {
				r.Violate("crash-under-io-fault|"+p.Op, "%s: process crashed (%s): %s", desc, tr.Signal, tailStr(tr.Output, 800))
				continue
			}
			// close() errors after a read are not failures of a read, directory-listing or write operation
			if tr.Exit == 0 && in.call != "close" && in.call != "fstat" && in.call != "newfstatat" {
				r.Violate("io-error-swallowed|"+p.Op+"|"+in.call, "%s: %d injected failure(s) hit (%v) but par exited 0; output tail: %s", desc, tr.Injected, tr.InjectedCalls, tailStr(tr.Output, 500))
			}
			// only files opened for writing in this run may differ
			wrote := map[string]bool{}
			opened := map[string]bool{}
			for _, ev := range mon.Mutations(tr.Events) {
				if rel, err := filepath.Rel(work, ev.Path); err == nil {
					wrote[rel] = true
					if ev.OK && (ev.Call == "openat" || ev.Call == "open" || ev.Call == "creat") {
						opened[rel] = true
					}
				}
				// a file moved into place was written under its previous name
				if ev.Path2 != "" {
					if rel, err := filepath.Rel(work, ev.Path2); err == nil {
						wrote[rel] = true
						if ev.OK {
							opened[rel] = true
						}
					}
				}
			}
			for _, d := range scen.DiffSnap(pre, scen.Snapshot(work)) {
				parts := strings.SplitN(d, " ", 2)
				if !wrote[parts[1]] {
					r.Violate("file-not-being-written-was-altered|"+p.Op, "%s: %s without a write-open event", desc, d)
				} else if !opened[parts[1]] {
					// the only attempts to open it for writing failed: nothing was
					// written to it, so the fault itself cannot have changed it
					r.Violate("file-altered-although-its-write-open-failed|"+p.Op, "%s: %s, but no open-for-writing of it succeeded in this run", desc, d)
				}
			}
			// rerun without the fault
			if p.Op != "create" {
				capOK := w.withinCapacity(work)
				out := w.run(work, "repair", nil)
				if capOK && (out.err != nil || len(w.originalsIntact(work)) > 0) && out.panicked == nil {
					r.Violate("rerun-fails-within-capacity|"+p.Op, "%s: after the faulted process a fault-free Repair gives %v, wrong files %v", desc, out.err, w.originalsIntact(work))
				}
			}
			r.Key("%s|%s|%s|strace|%s", p.Fmt, p.Op, p.State, spec)
		}
	}
	r.Sample(map[string]interface{}{"format": p.Fmt, "op": p.Op, "state": p.State, "layer": "strace", "injections": len(injs) * 6})
}
