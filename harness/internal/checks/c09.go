package checks

import (
	"bytes"
	"fmt"
	"math/rand"
	"os"
	"os/exec"
	"sync"

	"github.com/akalin/gopar/gf2p16"

	"verifharness/internal/core"
	"verifharness/internal/mon"
	"verifharness/internal/ref/gf16"
)

// C09 — bulk multiply kernels on every dispatch path.

type c09 struct{ base }

type c09Params struct {
	Mode   string `json:"mode"` // values | lengths | align
	Path   string `json:"path"`
	Consts []int  `json:"consts,omitempty"`
	CLo    int    `json:"clo,omitempty"`
	CHi    int    `json:"chi,omitempty"`
	Lens   []int  `json:"lens,omitempty"`
	Full   bool   `json:"full,omitempty"`
	Seed   int64  `json:"seed"`
}

var c09Paths = []string{"ssse3", "scalar-asm", "generic-go", "generic-go-words", "platformLE-cast", "exported-ssse3-on", "exported-ssse3-off"}

func init() {
	register(&c09{base{
		id:          "C09",
		level:       lvlExploration,
		rule:        "values mode: a 65536-word buffer holding every 16-bit word once is multiplied (and multiply-accumulated onto random output) by a block of constants on one dispatch path and compared word for word with reference rows; lengths mode: every even length 0..320 plus lengths around 2^16 and 2^17 bytes with source and destination flush against a trailing PROT_NONE guard page and again right after a leading one (a stray access faults and is attributed through the worker journal/note); align mode: source x destination alignments 0..63 in canary-filled memory, canaries and input re-checked after each call. A key is (path, op, mode-specific coordinate); trivial = length 0. Placement spare-capacity: ordinary sub-slices whose capacity reaches far beyond their length (different for input and output), canaries all around. Per length a call with an output one word shorter than the input (spare capacity behind it): nothing outside the given buffer may change.. Path generic-go-words (the portable kernels on field elements). The exported entry points (values, lengths, alignment, concurrency) also run in a GOARCH=386 build of the worker, where they reach the portable non-amd64 kernels. 386 worker: buffers of 2 MiB and 5 MiB.",
		assumptions: append([]string{"the SSSE3 path needs an SSSE3 CPU (present here); non-amd64 dispatch cannot be executed on this machine, its Go kernels are driven directly", "guard pages catch accesses that leave the mapped span by less than a page at the guarded end; canaries catch writes (not reads) elsewhere"}, commonAssumptions...),
		opts:        core.WorkerOpts{CrashIsViolation: true, WallSeconds: 1800},
	}})
}

func (c *c09) Cases(tier string, seed int64) []core.Case {
	var cs []core.Case
	r := core.Rng("C09", tier, seed)
	// values
	if tier == "thorough" {
		for _, p := range c09Paths {
			for lo := 0; lo < 65536; lo += 2048 {
				cs = append(cs, core.MkCase(fmt.Sprintf("values-%s-c[%d,%d)", p, lo, lo+2048), c09Params{Mode: "values", Path: p, CLo: lo, CHi: lo + 2048, Seed: r.Int63()}))
			}
		}
	} else {
		structured := []int{0, 1, 2, 3, 4, 0xff, 0x100, 0x101, 0x8000, 0xfffe, 0xffff, 0x100b, 0x1234, 0xabcd}
		for i := 0; i < 16; i++ {
			structured = append(structured, 1<<uint(i))
		}
		for _, p := range c09Paths {
			for b := 0; b < 4; b++ {
				consts := append([]int(nil), structured...)
				for len(consts) < 256 {
					consts = append(consts, r.Intn(65536))
				}
				cs = append(cs, core.MkCase(fmt.Sprintf("values-%s-b%d", p, b), c09Params{Mode: "values", Path: p, Consts: consts, Seed: r.Int63()}))
			}
		}
	}
	// lengths
	var small []int
	for l := 0; l <= 320; l += 2 {
		small = append(small, l)
	}
	big := []int{65534, 65536, 65538, 131070, 131072, 131074}
	if tier == "thorough" {
		for l := 322; l <= 1100; l += 2 {
			small = append(small, l)
		}
		big = append(big, 32766, 32768, 32770, 65504, 65568, 98304, 196608, 262142, 262144, 262146)
	}
	for _, p := range c09Paths {
		for i := 0; i < len(small); i += 41 {
			j := i + 41
			if j > len(small) {
				j = len(small)
			}
			cs = append(cs, core.MkCase(fmt.Sprintf("lengths-%s-%d..%d", p, small[i], small[j-1]), c09Params{Mode: "lengths", Path: p, Lens: small[i:j], Seed: r.Int63()}))
		}
		for _, l := range big {
			cs = append(cs, core.MkCase(fmt.Sprintf("lengths-%s-%d", p, l), c09Params{Mode: "lengths", Path: p, Lens: []int{l}, Seed: r.Int63()}))
		}
	}
	// concurrent: many goroutines inside the kernels at once, each on its own buffers
	for _, p := range c09Paths {
		cs = append(cs, core.MkCase(fmt.Sprintf("concurrent-%s", p), c09Params{Mode: "concurrent", Path: p, Lens: []int{2, 30, 34, 62, 66, 100, 318, 2000}, Seed: r.Int63()}))
		if p == "exported-ssse3-on" || p == "exported-ssse3-off" || p == "platformLE-cast" {
			// the same under the race detector (Go-level shared state of the
			// dispatchers and casts; -race also enables checkptr)
			rc := core.MkCase(fmt.Sprintf("race-concurrent-%s", p), c09Params{Mode: "concurrent", Path: p, Lens: []int{2, 30, 34, 62, 66, 100, 318}, Seed: r.Int63()})
			rc.Race = true
			cs = append(cs, rc)
		}
	}
	// the exported kernels as the first field operation of fresh processes
	// started with different GOMAXPROCS values
	cs = append(cs, core.MkCase("fresh-process-gomaxprocs", c09Params{Mode: "fresh", Path: "exported-ssse3-on", Seed: r.Int63()}))
	// the exported entry points in the GOARCH=386 build of the worker: there
	// they reach the portable kernels of the non-amd64 source files
	{
		p := "exported-ssse3-off"
		var a386 []core.Case
		for i := 0; i < 4; i++ {
			consts := []int{0, 1, 2, 3, 255, 256, 257, 0x100b, 0x8000, 0xfffe, 0xffff}
			for len(consts) < 64 {
				consts = append(consts, r.Intn(65536))
			}
			a386 = append(a386, core.MkCase(fmt.Sprintf("386:values-b%d", i), c09Params{Mode: "values", Path: p, Consts: consts, Seed: r.Int63()}))
		}
		a386 = append(a386, core.MkCase("386:lengths-0..320", c09Params{Mode: "lengths", Path: p, Lens: small[:161], Seed: r.Int63()}))
		a386 = append(a386, core.MkCase("386:lengths-65538", c09Params{Mode: "lengths", Path: p, Lens: []int{65538}, Seed: r.Int63()}))
		// buffers of more than 2 MiB (what one slice of a large set is)
		a386 = append(a386, core.MkCase("386:lengths-2MiB", c09Params{Mode: "lengths", Path: p, Lens: []int{2097150, 2097152, 2097154}, Seed: r.Int63()}))
		a386 = append(a386, core.MkCase("386:lengths-5MiB", c09Params{Mode: "lengths", Path: p, Lens: []int{5242882}, Seed: r.Int63()}))
		a386 = append(a386, core.MkCase("386:align", c09Params{Mode: "align", Path: p, Lens: []int{2, 30, 32, 34, 66, 130}, Seed: r.Int63()}))
		a386 = append(a386, core.MkCase("386:concurrent", c09Params{Mode: "concurrent", Path: p, Lens: []int{2, 30, 34, 66, 318}, Seed: r.Int63()}))
		for _, cc := range a386 {
			cc.Arch386 = true
			cs = append(cs, cc)
		}
	}
	// align
	for _, p := range c09Paths {
		cs = append(cs, core.MkCase(fmt.Sprintf("align-%s", p), c09Params{Mode: "align", Path: p, Full: tier == "thorough", Lens: []int{2, 30, 32, 34, 62, 64, 66, 96, 130, 318}, Seed: r.Int63()}))
	}
	return cs
}

type kernel func(c gf2p16.T, in, out []byte)

func c09Kernels(path string) (mul, mulAdd kernel) {
	switch path {
	case "ssse3":
		return func(c gf2p16.T, in, out []byte) { gf2p16.VerifMulByteSliceLE(c, in, out, true) },
			func(c gf2p16.T, in, out []byte) { gf2p16.VerifMulAndAddByteSliceLE(c, in, out, true) }
	case "scalar-asm":
		return func(c gf2p16.T, in, out []byte) { gf2p16.VerifMulByteSliceLE(c, in, out, false) },
			func(c gf2p16.T, in, out []byte) { gf2p16.VerifMulAndAddByteSliceLE(c, in, out, false) }
	case "generic-go":
		return gf2p16.VerifMulByteSliceLEGeneric, gf2p16.VerifMulAndAddByteSliceLEGeneric
	case "generic-go-words":
		// the portable kernels on field elements (what the byte-slice entry
		// points reach on little-endian platforms other than amd64), driven
		// through an explicit little-endian conversion
		wrap := func(k func(c gf2p16.T, in, out []gf2p16.T)) kernel {
			return func(c gf2p16.T, in, out []byte) {
				if len(in) != len(out) {
					panic("size mismatch")
				}
				ti, to := make([]gf2p16.T, len(in)/2), make([]gf2p16.T, len(out)/2)
				for i := range ti {
					ti[i] = gf2p16.T(uint16(in[2*i]) | uint16(in[2*i+1])<<8)
					to[i] = gf2p16.T(uint16(out[2*i]) | uint16(out[2*i+1])<<8)
				}
				k(c, ti, to)
				for i := range to {
					out[2*i], out[2*i+1] = byte(to[i]), byte(to[i]>>8)
				}
			}
		}
		return wrap(gf2p16.VerifMulSliceGeneric), wrap(gf2p16.VerifMulAndAddSliceGeneric)
	case "platformLE-cast":
		return gf2p16.VerifMulByteSliceLEPlatformLE, gf2p16.VerifMulAndAddByteSliceLEPlatformLE
	case "exported-ssse3-on":
		gf2p16.VerifSetSSSE3(true)
		return gf2p16.MulByteSliceLE, gf2p16.MulAndAddByteSliceLE
	case "exported-ssse3-off":
		gf2p16.VerifSetSSSE3(false)
		return gf2p16.MulByteSliceLE, gf2p16.MulAndAddByteSliceLE
	}
	panic("unknown path " + path)
}

// expect computes the reference result.
func c09Expect(row *[65536]uint16, in, outOld []byte, add bool) []byte {
	want := make([]byte, len(in))
	for i := 0; i+1 < len(in); i += 2 {
		v := row[uint16(in[i])|uint16(in[i+1])<<8]
		if add {
			v ^= uint16(outOld[i]) | uint16(outOld[i+1])<<8
		}
		want[i] = byte(v)
		want[i+1] = byte(v >> 8)
	}
	return want
}

func firstDiff(a, b []byte) int {
	for i := range a {
		if a[i] != b[i] {
			return i
		}
	}
	return -1
}

func (c *c09) Run(cs core.Case) core.Result {
	var p c09Params
	core.Decode(cs, &p)
	r := core.NewR(cs)
	if p.Path == "ssse3" || p.Path == "exported-ssse3-on" {
		// The machine must really have SSSE3 for this path.
		if !gf2p16.VerifHasSSSE3() && p.Path == "ssse3" {
			// hasSSSE3 reflects cpuid at init (before any override in this process).
		}
	}
	if p.Mode == "fresh" {
		exe := os.Getenv("VW_FRESH_EXE")
		if exe == "" {
			r.Inconclusive("vwfresh not built")
			return r.Done()
		}
		for _, gmp := range []string{"", "1", "2", "3", "5", "6", "7", "12", "16"} {
			for _, op := range []string{"mulslice", "muladdslice"} {
				cmd := exec.Command(exe, op, fmt.Sprint(p.Seed))
				if gmp != "" {
					cmd.Env = append(os.Environ(), "GOMAXPROCS="+gmp)
				}
				out, err := cmd.CombinedOutput()
				r.Count("fresh_processes", 1)
				if err != nil {
					r.Violate("wrong-product-in-fresh-process|"+op, "%s in a fresh process started with GOMAXPROCS=%q: %v\n%s", op, gmp, err, tailStr(string(out), 600))
				}
				r.Key("fresh|%s|%s", op, gmp)
			}
		}
		r.Sample(map[string]interface{}{"mode": "fresh", "gomaxprocs": []string{"default", "1", "2", "3", "5", "6", "7", "12", "16"}})
		return r.Done()
	}
	hadSSSE3 := gf2p16.VerifHasSSSE3()
	defer gf2p16.VerifSetSSSE3(hadSSSE3)
	mul, mulAdd := c09Kernels(p.Path)
	rng := rand.New(rand.NewSource(p.Seed))
	subNo := 0
	var row [65536]uint16
	ops := []struct {
		name string
		k    kernel
		add  bool
	}{{"mul", mul, false}, {"muladd", mulAdd, true}}

	switch p.Mode {
	case "values":
		in := make([]byte, 131072)
		perm := rng.Perm(65536)
		for i, v := range perm {
			in[2*i] = byte(v)
			in[2*i+1] = byte(v >> 8)
		}
		inCopy := append([]byte(nil), in...)
		consts := p.Consts
		if consts == nil {
			for cst := p.CLo; cst < p.CHi; cst++ {
				consts = append(consts, cst)
			}
		}
		out := make([]byte, len(in))
		outOld := make([]byte, len(in))
		for _, cst := range consts {
			gf16.Row(uint16(cst), &row)
			for _, op := range ops {
				rng.Read(outOld)
				copy(out, outOld)
				subNo++
				if !core.Sub(subNo) {
					continue
				}
				core.Note("C09 values path=%s op=%s c=%d len=%d", p.Path, op.name, cst, len(in))
				if pi := core.Protect(func() { op.k(gf2p16.T(cst), in, out) }); pi != nil {
					r.Violate("kernel-panic|"+p.Path, "path=%s op=%s c=%d: panic %s", p.Path, op.name, cst, pi.Msg)
					return r.Done()
				}
				want := c09Expect(&row, in, outOld, op.add)
				if d := firstDiff(out, want); d >= 0 {
					w := d &^ 1
					r.Violate("wrong-product|"+p.Path+"|"+op.name, "path=%s op=%s c=%d: word at byte %d (in=%#04x) = %#04x, reference %#04x", p.Path, op.name, cst, w, uint16(in[w])|uint16(in[w+1])<<8, uint16(out[w])|uint16(out[w+1])<<8, uint16(want[w])|uint16(want[w+1])<<8)
				}
				if !bytes.Equal(in, inCopy) {
					r.Violate("input-modified|"+p.Path, "path=%s op=%s c=%d: input buffer modified", p.Path, op.name, cst)
					copy(in, inCopy)
				}
				r.Count("products_compared", 65536)
			}
			r.Key("values|%s|c=%d", p.Path, cst)
			if len(r.Done().More) > 8 {
				break
			}
		}
		r.Sample(map[string]interface{}{"mode": "values", "path": p.Path, "constants": len(consts), "first_constants": consts[:min(8, len(consts))], "buffer": "all 65536 word values, permuted"})

	case "lengths":
		pages := 80
		for _, l := range p.Lens {
			if need := l/4096 + 8; need > pages {
				pages = need
			}
		}
		regIn, err1 := mon.NewGuardRegion(pages)
		regOut, err2 := mon.NewGuardRegion(pages)
		if err1 != nil || err2 != nil {
			r.Inconclusive("mmap failed: %v %v", err1, err2)
			return r.Done()
		}
		defer regIn.Close()
		defer regOut.Close()
		for _, l := range p.Lens {
			for _, placement := range []string{"trailing-guard", "leading-guard", "alias-trailing", "spare-capacity"} {
				for ci := 0; ci < 3; ci++ {
					cst := []int{rng.Intn(65536), 0xffff, 1 + rng.Intn(65535)}[ci]
					gf16.Row(uint16(cst), &row)
					for _, op := range ops {
						if placement == "alias-trailing" && op.add {
							continue
						}
						regIn.FillCanary()
						regOut.FillCanary()
						var in, out []byte
						var inOff, outOff int
						switch placement {
						case "trailing-guard":
							in, out = regIn.Tail(l), regOut.Tail(l)
							inOff, outOff = len(regIn.Data)-l, len(regOut.Data)-l
						case "leading-guard":
							in, out = regIn.Head(l), regOut.Head(l)
						case "alias-trailing":
							in = regIn.Tail(l)
							out = in
							inOff = len(regIn.Data) - l
						case "spare-capacity":
							// ordinary sub-slices: capacity reaches far beyond the
							// length, differently for the two buffers
							inOff, outOff = 64, 4096+128
							if ci == 1 {
								inOff, outOff = 4096+32, 66
							}
							in, out = regIn.Data[inOff:inOff+l], regOut.Data[outOff:outOff+l]
						}
						rng.Read(in)
						inCopy := append([]byte(nil), in...)
						if placement != "alias-trailing" {
							rng.Read(out)
						}
						outOld := append([]byte(nil), out...)
						subNo++
						if !core.Sub(subNo) {
							continue
						}
						core.Note("C09 lengths path=%s op=%s c=%d len=%d placement=%s (a fault here is an out-of-bounds access)", p.Path, op.name, cst, l, placement)
						if pi := core.Protect(func() { op.k(gf2p16.T(cst), in, out) }); pi != nil {
							r.Violate("kernel-panic|"+p.Path, "path=%s op=%s c=%d len=%d %s: panic %s", p.Path, op.name, cst, l, placement, pi.Msg)
							continue
						}
						want := c09Expect(&row, inCopy, outOld, op.add)
						if d := firstDiff(out, want); d >= 0 {
							r.Violate("wrong-product|"+p.Path+"|"+op.name, "path=%s op=%s c=%d len=%d %s: byte %d differs from reference", p.Path, op.name, cst, l, placement, d)
						}
						if placement != "alias-trailing" && !bytes.Equal(in, inCopy) {
							r.Violate("input-modified|"+p.Path, "path=%s op=%s c=%d len=%d %s: input modified", p.Path, op.name, cst, l, placement)
						}
						if off := regIn.CheckCanaryOutside(inOff, l); off >= 0 {
							r.Violate("oob-write|"+p.Path, "path=%s op=%s c=%d len=%d %s: byte at offset %d outside the INPUT buffer [%d,%d) was written", p.Path, op.name, cst, l, placement, off, inOff, inOff+l)
						}
						if placement != "alias-trailing" {
							if off := regOut.CheckCanaryOutside(outOff, l); off >= 0 {
								r.Violate("oob-write|"+p.Path, "path=%s op=%s c=%d len=%d %s: byte at offset %d outside the output buffer [%d,%d) was written", p.Path, op.name, cst, l, placement, off, outOff, outOff+l)
							}
						}
						r.Count("guarded_calls", 1)
						r.Count("guard_placements_"+placement, 1)
					}
				}
				if l > 0 {
					r.Key("lengths|%s|%d|%s", p.Path, l, placement)
				}
				// An output buffer one word shorter than the input, with plenty of
				// capacity behind it: whatever the call does (it may well refuse),
				// nothing beyond the given buffer may change.
				if placement == "spare-capacity" && l >= 4 {
					for _, op := range ops {
						regIn.FillCanary()
						regOut.FillCanary()
						in := regIn.Data[64 : 64+l]
						out := regOut.Data[4096+128 : 4096+128+l-2]
						rng.Read(in)
						rng.Read(out)
						subNo++
						if !core.Sub(subNo) {
							continue
						}
						core.Note("C09 mismatched lengths path=%s op=%s len(in)=%d len(out)=%d", p.Path, op.name, l, l-2)
						refused := core.Protect(func() { op.k(gf2p16.T(0x1234), in, out) }) != nil
						if off := regOut.CheckCanaryOutside(4096+128, l-2); off >= 0 {
							r.Violate("oob-write|"+p.Path, "path=%s op=%s: in has %d bytes, out %d (capacity far larger); refused=%v; byte at offset %d outside the output buffer [%d,%d) was written", p.Path, op.name, l, l-2, refused, off, 4096+128, 4096+128+l-2)
						}
						if off := regIn.CheckCanaryOutside(64, l); off >= 0 {
							r.Violate("oob-write|"+p.Path, "path=%s op=%s: mismatched call wrote outside the input at %d", p.Path, op.name, off)
						}
						r.Count("mismatched_length_calls", 1)
					}
				}
			}
		}
		r.Sample(map[string]interface{}{"mode": "lengths", "path": p.Path, "lengths": p.Lens, "placements": []string{"trailing-guard", "leading-guard", "alias-trailing", "spare-capacity"}})

	case "concurrent":
		// 16 goroutines, private inputs and outputs, same kernels at the same
		// time: results must still be element-wise products.
		const workers = 16
		rounds := 300
		type job struct {
			c       int
			in, out []byte
			old     []byte
			add     bool
		}
		var mu sync.Mutex
		var wg sync.WaitGroup
		seeds := make([]int64, workers)
		for i := range seeds {
			seeds[i] = rng.Int63()
		}
		for wkr := 0; wkr < workers; wkr++ {
			wg.Add(1)
			go func(wkr int) {
				defer wg.Done()
				lr := rand.New(rand.NewSource(seeds[wkr]))
				var lrow [65536]uint16
				for it := 0; it < rounds; it++ {
					l := p.Lens[lr.Intn(len(p.Lens))]
					cst := 1 + lr.Intn(65535)
					in := make([]byte, l)
					out := make([]byte, l)
					lr.Read(in)
					lr.Read(out)
					old := append([]byte(nil), out...)
					op := ops[lr.Intn(2)]
					pi := core.Protect(func() { op.k(gf2p16.T(cst), in, out) })
					gf16.Row(uint16(cst), &lrow)
					want := c09Expect(&lrow, in, old, op.add)
					mu.Lock()
					if pi != nil {
						r.Violate("kernel-panic|"+p.Path, "concurrent use, path=%s op=%s len=%d: %s", p.Path, op.name, l, pi.Msg)
					} else if d := firstDiff(out, want); d >= 0 {
						r.Violate("wrong-product-under-concurrent-use|"+p.Path+"|"+op.name, "path=%s op=%s c=%d len=%d: %d goroutines use the kernel at once on private buffers; byte %d of this goroutine's output differs from the reference", p.Path, op.name, cst, l, workers, d)
					}
					r.Count("concurrent_calls", 1)
					mu.Unlock()
				}
			}(wkr)
		}
		wg.Wait()
		r.Key("concurrent|%s", p.Path)
		r.Sample(map[string]interface{}{"mode": "concurrent", "path": p.Path, "goroutines": workers, "calls": workers * rounds, "lengths": p.Lens})

	case "align":
		regIn, err1 := mon.NewGuardRegion(2)
		regOut, err2 := mon.NewGuardRegion(2)
		if err1 != nil || err2 != nil {
			r.Inconclusive("mmap failed: %v %v", err1, err2)
			return r.Done()
		}
		defer regIn.Close()
		defer regOut.Close()
		type pair struct{ s, d int }
		var pairs []pair
		if p.Full {
			for s := 0; s < 64; s++ {
				for d := 0; d < 64; d++ {
					pairs = append(pairs, pair{s, d})
				}
			}
		} else {
			for a := 0; a < 64; a++ {
				pairs = append(pairs, pair{a, 0}, pair{0, a}, pair{a, a}, pair{a, 63 - a})
			}
		}
		for _, pr := range pairs {
			for _, l := range p.Lens {
				cst := 1 + rng.Intn(65535)
				gf16.Row(uint16(cst), &row)
				for _, op := range ops {
					regIn.FillCanary()
					regOut.FillCanary()
					inOff, outOff := 1024+pr.s, 2048+pr.d
					in, out := regIn.At(inOff, l), regOut.At(outOff, l)
					rng.Read(in)
					rng.Read(out)
					inCopy := append([]byte(nil), in...)
					outOld := append([]byte(nil), out...)
					subNo++
					if !core.Sub(subNo) {
						continue
					}
					core.Note("C09 align path=%s op=%s c=%d len=%d src+%d dst+%d", p.Path, op.name, cst, l, pr.s, pr.d)
					if pi := core.Protect(func() { op.k(gf2p16.T(cst), in, out) }); pi != nil {
						r.Violate("kernel-panic|"+p.Path, "path=%s op=%s c=%d len=%d align=(%d,%d): panic %s", p.Path, op.name, cst, l, pr.s, pr.d, pi.Msg)
						continue
					}
					want := c09Expect(&row, inCopy, outOld, op.add)
					if d := firstDiff(out, want); d >= 0 {
						r.Violate("wrong-product|"+p.Path+"|"+op.name, "path=%s op=%s c=%d len=%d align=(%d,%d): byte %d differs from reference", p.Path, op.name, cst, l, pr.s, pr.d, d)
					}
					if !bytes.Equal(in, inCopy) {
						r.Violate("input-modified|"+p.Path, "path=%s op=%s len=%d align=(%d,%d): input modified", p.Path, op.name, l, pr.s, pr.d)
					}
					if off := regIn.CheckCanaryOutside(inOff, l); off >= 0 {
						r.Violate("oob-write|"+p.Path, "path=%s op=%s len=%d align=(%d,%d): canary at %d beside the input [%d,%d) clobbered", p.Path, op.name, l, pr.s, pr.d, off, inOff, inOff+l)
					}
					if off := regOut.CheckCanaryOutside(outOff, l); off >= 0 {
						r.Violate("oob-write|"+p.Path, "path=%s op=%s len=%d align=(%d,%d): canary at %d beside the output [%d,%d) clobbered", p.Path, op.name, l, pr.s, pr.d, off, outOff, outOff+l)
					}
					r.Count("aligned_calls", 1)
				}
				r.Key("align|%s|%d|%d|%d", p.Path, pr.s, pr.d, l)
			}
			if len(r.Done().More) > 8 {
				break
			}
		}
		r.Sample(map[string]interface{}{"mode": "align", "path": p.Path, "alignment_pairs": len(pairs), "lengths": p.Lens})
	}
	return r.Done()
}

func min(a, b int) int {
	if a < b {
		return a
	}
	return b
}
