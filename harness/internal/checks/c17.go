package checks

import (
	"fmt"
	"math/rand"
	"os"
	"os/exec"
	"path/filepath"
	"runtime"
	"sort"
	"strings"
	"sync"

	"github.com/akalin/gopar/par1"
	"github.com/akalin/gopar/par2"
	"github.com/klauspost/cpuid/v2"

	"verifharness/internal/core"
	"verifharness/internal/scen"
)

// C17 — Create is deterministic and invariant under irrelevant variation.

type c17 struct{ base }

type c17Params struct {
	Seed int64  `json:"seed"`
	Fmt  string `json:"fmt"` // par2 | par1
}

func init() {
	register(&c17{base{
		id:          "C17",
		level:       lvlExploration,
		rule:        "each case draws a file set, creates a reference archive (absolute clean paths, 1 goroutine, cwd = an unrelated directory) and then re-creates it in fresh copies of the directory under every variation: repetition (many runs, many recovery blocks), longer files already present under the output names (what an earlier Create with other parameters leaves behind), goroutine counts {1,2,3,7,16,64}, permutations of the input list (PAR2; some sets have 48-72 files so that file IDs agreeing in their last bytes occur), a file listed twice with the repeat spelled in different ways, current directory in {set directory, its parent, unrelated}, path spellings {relative, ./x, absolute, absolute with //, /./ and x/../, parent-relative with redundant separators} for the inputs and for the index path, through the library and through the built par binary. The set of written files (names relative to the set directory and bytes) must equal the reference. A key is (format, variation, set shape). Further modes: options left at zero under eight (GOMAXPROCS, detected cores) pairs and the CLI without flags, compared with the documented default constants; an input the format refuses (an empty file) in twelve listing orders: all runs must have the same outcome. Also: the set written through ONE Encoder object with a repeated load step must equal a fresh Create byte for byte (PAR1 and PAR2).. Variant batch: one slice of relative input names reused for the same archive in three directories in turn.. Every seventh PAR2 set has two inputs equal in size and in their first 16 KiB.. Every set lives in a directory whose name contains .par and .par2; mode big-volumes (recovery files of hundreds of KiB under GOMAXPROCS default/1/2/16). Modes par2-concurrent / par1-concurrent: four Creates of one set and two Verifies of the reference at the same time in one process, six rounds in the plain build and two under the race detector (a report is a violation).",
		assumptions: commonAssumptions,
		opts:        core.WorkerOpts{CrashIsViolation: true, WallSeconds: 2400},
	}})
}

func (c *c17) Cases(tier string, seed int64) []core.Case {
	var cs []core.Case
	r := core.Rng("C17", tier, seed)
	n := map[string]int{"quick": 48, "thorough": 2000}[tier]
	for i := 0; i < n; i++ {
		f := "par2"
		if i%4 == 3 {
			f = "par1"
		}
		cs = append(cs, core.MkCase(fmt.Sprintf("%s-%d", f, i), c17Params{r.Int63(), f}))
	}
	for i := 0; i < map[string]int{"quick": 3, "thorough": 40}[tier]; i++ {
		cs = append(cs, core.MkCase(fmt.Sprintf("par2-defaults-%d", i), c17Params{r.Int63(), "par2-defaults"}))
		cs = append(cs, core.MkCase(fmt.Sprintf("par1-defaults-%d", i), c17Params{r.Int63(), "par1-defaults"}))
		cs = append(cs, core.MkCase(fmt.Sprintf("par2-empty-file-%d", i), c17Params{r.Int63(), "par2-empty-file"}))
		if i == 0 || tier == "thorough" {
			cs = append(cs, core.MkCase(fmt.Sprintf("par2-big-volumes-%d", i), c17Params{r.Int63(), "par2-big-volumes"}))
		}
		for _, h := range encoderHistories {
			cs = append(cs, core.MkCase(fmt.Sprintf("par2-encoder-%s-%d", h, i), c17Params{r.Int63(), "par2-encoder:" + h}))
			cs = append(cs, core.MkCase(fmt.Sprintf("par1-encoder-%s-%d", h, i), c17Params{r.Int63(), "par1-encoder:" + h}))
		}
	}
	// several Creates (and Verifies of the reference) of one set at the same
	// time in one process, plain and under the race detector: what Create
	// writes does not depend on what else the process is doing
	for i := 0; i < map[string]int{"quick": 2, "thorough": 12}[tier]; i++ {
		for _, f := range []string{"par2-concurrent", "par1-concurrent"} {
			cs = append(cs, core.MkCase(fmt.Sprintf("%s-%d", f, i), c17Params{r.Int63(), f}))
			if i == 0 {
				rc := core.MkCase(fmt.Sprintf("race-%s-%d", f, i), c17Params{r.Int63(), f})
				rc.Race = true
				cs = append(cs, rc)
			}
		}
	}
	return cs
}

// runConcurrent: see Cases.
func (c *c17) runConcurrent(r *core.R, p c17Params, rng *rand.Rand) {
	root, err := os.MkdirTemp("", "c17c-")
	if err != nil {
		r.Inconclusive("tempdir: %v", err)
		return
	}
	defer os.RemoveAll(root)
	par1Mode := p.Fmt == "par1-concurrent"
	ext := map[bool]string{true: ".par", false: ".par2"}[par1Mode]
	var set scen.Set
	set.SliceSize = 4 * (200 + rng.Intn(400))
	set.Blocks = 5 + rng.Intn(6)
	nf := 3 + rng.Intn(3)
	inputs := map[string]bool{}
	for i := 0; i < nf; i++ {
		f := scen.File{Name: fmt.Sprintf("in%d.dat", i), Data: scen.GenData(rng, "random", 9000+rng.Intn(30000), 4)}
		set.Files = append(set.Files, f)
		inputs[f.Name] = true
	}
	create := func(dir string, g int) error {
		var paths []string
		for _, f := range set.Files {
			paths = append(paths, filepath.Join(dir, f.Name))
		}
		var cerr error
		if pi := core.Protect(func() {
			if par1Mode {
				cerr = par1.Create(filepath.Join(dir, "arch"+ext), paths, par1.CreateOptions{NumParityFiles: set.Blocks})
			} else {
				cerr = par2.Create(filepath.Join(dir, "arch"+ext), paths, par2.CreateOptions{SliceByteCount: set.SliceSize, NumParityShards: set.Blocks, NumGoroutines: g})
			}
		}); pi != nil {
			return fmt.Errorf("panic: %s", pi.Msg)
		}
		return cerr
	}
	refDir := filepath.Join(root, "ref", c17SetDirName)
	set.Materialize(refDir)
	if err := create(refDir, 1); err != nil {
		r.Violate("create-failed", "reference Create: %v", err)
		return
	}
	ref := createdFiles(refDir, inputs)
	rounds := 6
	if os.Getenv("VW_IS_RACE") != "" {
		rounds = 2
	}
	const par = 4
	for round := 0; round < rounds; round++ {
		var dirs []string
		for k := 0; k < par; k++ {
			d := filepath.Join(root, fmt.Sprintf("r%dk%d", round, k), c17SetDirName)
			set.Materialize(d)
			dirs = append(dirs, d)
		}
		errs := make([]error, par)
		verrs := make([]error, 2)
		clean := make([]bool, 2)
		var wg sync.WaitGroup
		start := make(chan struct{})
		for k := 0; k < par; k++ {
			wg.Add(1)
			go func(k int) {
				defer wg.Done()
				<-start
				errs[k] = create(dirs[k], 1+k%3)
			}(k)
		}
		for v := 0; v < 2; v++ {
			wg.Add(1)
			go func(v int) {
				defer wg.Done()
				<-start
				core.Protect(func() {
					if par1Mode {
						var vr par1.VerifyResult
						vr, verrs[v] = par1.Verify(filepath.Join(refDir, "arch"+ext), par1.VerifyOptions{VerifyAllData: true})
						clean[v] = verrs[v] == nil && !vr.FileCounts.RepairNeeded()
					} else {
						var vr par2.VerifyResult
						vr, verrs[v] = par2.Verify(filepath.Join(refDir, "arch"+ext), par2.VerifyOptions{NumGoroutines: 2})
						clean[v] = verrs[v] == nil && !vr.ShardCounts.RepairNeeded()
					}
				})
			}(v)
		}
		close(start)
		wg.Wait()
		for k := 0; k < par; k++ {
			if errs[k] != nil {
				r.Violate("create-failed|concurrent", "concurrent Create #%d (round %d): %v", k, round, errs[k])
				continue
			}
			if d := scen.DiffSnap(ref, createdFiles(dirs[k], inputs)); len(d) > 0 {
				r.Violate("create-output-varies|concurrent-creates", "%s Create output differs from the reference when %d Creates and 2 Verifies run at the same time in one process (round %d): %v", p.Fmt, par, round, d)
			}
			r.Count("variant_runs", 1)
			r.Key("%s|concurrent|%d|%d", p.Fmt, round, k)
		}
		for v := 0; v < 2; v++ {
			if !clean[v] {
				r.Violate("verify-varies|concurrent", "%s Verify of the untouched reference set while %d Creates run in the same process: clean=%v err=%v", p.Fmt, par, clean[v], verrs[v])
			}
		}
		for _, d := range dirs {
			os.RemoveAll(filepath.Dir(d))
		}
	}
	r.Sample(map[string]interface{}{"format": p.Fmt, "files": nf, "slice": set.SliceSize, "blocks": set.Blocks, "concurrent_creates": par, "concurrent_verifies": 2, "rounds": rounds, "race_build": os.Getenv("VW_IS_RACE") != ""})
}

// runOutcomes: Create is run with options left at their documented defaults
// under different numbers of processors, and with an input the format may
// refuse (an empty file) in every listing order; every run must have the
// same outcome: the same error class (refused) or the same bytes.
func (c *c17) runOutcomes(r *core.R, p c17Params, rng *rand.Rand) {
	root, err := os.MkdirTemp("", "c17o-")
	if err != nil {
		r.Inconclusive("tempdir: %v", err)
		return
	}
	defer os.RemoveAll(root)
	par1Mode := p.Fmt == "par1-defaults"
	bigVolumes := p.Fmt == "par2-big-volumes"
	ext := map[bool]string{true: ".par", false: ".par2"}[par1Mode]
	var set scen.Set
	nf := 3 + rng.Intn(3)
	for i := 0; i < nf; i++ {
		set.Files = append(set.Files, scen.File{Name: fmt.Sprintf("in%d.dat", i), Data: scen.GenData(rng, "random", 1500+rng.Intn(7000), 4)})
	}
	if bigVolumes {
		// slices of ~70 KB and 15 blocks: the recovery files holding 4 and 8
		// blocks are several hundred KiB each
		set.Files = nil
		for i := 0; i < 2; i++ {
			set.Files = append(set.Files, scen.File{Name: fmt.Sprintf("big%d.dat", i), Data: scen.GenData(rng, "random", 100000+rng.Intn(80000), 4)})
		}
		nf = 2
	}
	emptyAt := -1
	if p.Fmt == "par2-empty-file" {
		emptyAt = rng.Intn(nf - 2) // at least two files are listed after it
		set.Files[emptyAt].Data = []byte{}
	}
	type variant struct {
		name   string
		procs  int
		cores  int // cpuid's physical core count; -1 = leave
		order  []int
		opts2  par2.CreateOptions
		opts1  par1.CreateOptions
		cliEnv string // "" = library
	}
	ident := make([]int, nf)
	for i := range ident {
		ident[i] = i
	}
	var variants []variant
	if bigVolumes {
		o2 := par2.CreateOptions{SliceByteCount: 70000, NumParityShards: 15, NumGoroutines: 4}
		ident2 := []int{0, 1}
		variants = append(variants, variant{name: "big-volumes,GOMAXPROCS=default", cores: -1, order: ident2, opts2: o2})
		for _, pc := range []int{1, 2, 16} {
			variants = append(variants, variant{name: fmt.Sprintf("big-volumes,GOMAXPROCS=%d", pc), procs: pc, cores: -1, order: ident2, opts2: o2})
		}
	} else if emptyAt >= 0 {
		o2 := par2.CreateOptions{SliceByteCount: 400, NumParityShards: 2, NumGoroutines: 2}
		variants = append(variants, variant{name: "listed-in-order", procs: 0, cores: -1, order: ident, opts2: o2})
		for k := 0; k < 10; k++ {
			variants = append(variants, variant{name: fmt.Sprintf("permutation-%d", k), cores: -1, order: rng.Perm(nf), opts2: o2})
		}
		rev := make([]int, nf)
		for i := range rev {
			rev[i] = nf - 1 - i
		}
		variants = append(variants, variant{name: "reversed", cores: -1, order: rev, opts2: o2})
	} else {
		variants = append(variants, variant{name: "explicit-documented-defaults", cores: -1, order: ident,
			opts2: par2.CreateOptions{SliceByteCount: par2.SliceByteCountDefault, NumParityShards: par2.NumParityShardsDefault, NumGoroutines: 1},
			opts1: par1.CreateOptions{NumParityFiles: par1.NumParityFilesDefault}})
		for _, pc := range [][2]int{{1, -1}, {2, -1}, {3, 0}, {5, 1}, {16, 2}, {7, 1024}, {4, 4}, {6, 3}} {
			variants = append(variants, variant{name: fmt.Sprintf("zero-options,GOMAXPROCS=%d,cores=%d", pc[0], pc[1]), procs: pc[0], cores: pc[1], order: ident})
		}
		if os.Getenv("VW_PAR_EXE") != "" {
			for _, gm := range []string{"1", "3", "8"} {
				variants = append(variants, variant{name: "cli-no-flags,GOMAXPROCS=" + gm, cores: -1, order: ident, cliEnv: gm})
			}
		}
	}
	inputs := map[string]bool{}
	for _, f := range set.Files {
		inputs[f.Name] = true
	}
	oldCores := cpuid.CPU.PhysicalCores
	oldProcs := runtime.GOMAXPROCS(0)
	defer func() { cpuid.CPU.PhysicalCores = oldCores; runtime.GOMAXPROCS(oldProcs) }()
	type outcome struct {
		refused bool
		files   map[string]string
	}
	var ref *outcome
	var refName string
	for i, v := range variants {
		dir := filepath.Join(root, fmt.Sprintf("v%d", i), c17SetDirName)
		if _, err := set.Materialize(dir); err != nil {
			r.Inconclusive("materialize: %v", err)
			return
		}
		var paths []string
		for _, j := range v.order {
			paths = append(paths, filepath.Join(dir, set.Files[j].Name))
		}
		idx := filepath.Join(dir, "arch"+ext)
		var cerr error
		core.Note("C17 outcomes %s variant=%s", p.Fmt, v.name)
		if v.cliEnv != "" {
			cmd := exec.Command(os.Getenv("VW_PAR_EXE"), append([]string{"c", idx}, paths...)...)
			cmd.Env = append(os.Environ(), "GOMAXPROCS="+v.cliEnv)
			if out, err := cmd.CombinedOutput(); err != nil {
				cerr = fmt.Errorf("%v: %s", err, tailStr(string(out), 300))
			}
		} else {
			if v.procs > 0 {
				runtime.GOMAXPROCS(v.procs)
			}
			if v.cores >= 0 {
				cpuid.CPU.PhysicalCores = v.cores
			}
			pi := core.Protect(func() {
				if par1Mode {
					cerr = par1.Create(idx, paths, v.opts1)
				} else {
					cerr = par2.Create(idx, paths, v.opts2)
				}
			})
			cpuid.CPU.PhysicalCores = oldCores
			runtime.GOMAXPROCS(oldProcs)
			if pi != nil {
				r.Violate("create-panic|"+pi.Frame, "%s variant %s: %s", p.Fmt, v.name, pi.Msg)
				continue
			}
		}
		o := &outcome{refused: cerr != nil}
		if cerr == nil {
			o.files = createdFiles(dir, inputs)
		}
		r.Count("variant_runs", 1)
		r.Key("%s|%s|f=%d", p.Fmt, v.name, nf)
		if ref == nil {
			ref, refName = o, v.name
			if cerr != nil {
				r.Count("reference_run_refused", 1)
				if emptyAt < 0 {
					r.Violate("create-failed|lib|defaults", "%s variant %s: %v", p.Fmt, v.name, cerr)
					return
				}
			}
			continue
		}
		switch {
		case o.refused != ref.refused:
			r.Violate("create-output-varies|outcome", "%s: variant %q refused=%v (%v) but %q refused=%v; the inputs are the same files", p.Fmt, v.name, o.refused, cerr, refName, ref.refused)
		case !o.refused:
			if d := scen.DiffSnap(ref.files, o.files); len(d) > 0 {
				sort.Strings(d)
				r.Violate("create-output-varies|"+variantClass(v.name), "%s: Create output under %q differs from %q (same inputs, slice size and block count): %v", p.Fmt, v.name, refName, d)
			}
		}
		os.RemoveAll(filepath.Join(root, fmt.Sprintf("v%d", i)))
	}
	r.Sample(map[string]interface{}{"mode": p.Fmt, "files": nf, "empty_file_at": emptyAt, "variants": len(variants), "reference_refused": ref != nil && ref.refused})
}

// createdFiles snapshots everything under dir except the given inputs.
func createdFiles(dir string, inputs map[string]bool) map[string]string {
	snap := scen.Snapshot(dir)
	out := map[string]string{}
	for k, v := range snap {
		if v == "dir" || inputs[k] {
			continue
		}
		out[k] = v
	}
	return out
}

// c17SetDirName is the name of the directory every set lives in: it contains
// ".par" and ".par2" itself (a naive search for the extension in the whole
// path finds the directory first).
const c17SetDirName = "the.parts set.par2.d"

type c17Variant struct {
	// over: longer files already exist under the names Create will write
	over  bool
	name  string
	cwd   string // "set" | "parent" | "other"
	spell string // how to spell paths
	g     int
	perm  bool
	cli   bool
}

func spellPath(spell, setDir, rel, cwd string) string {
	abs := filepath.Join(setDir, rel)
	switch spell {
	case "abs":
		return abs
	case "abs-dslash":
		return setDir + "//" + rel
	case "abs-dot":
		return setDir + "/./" + rel
	case "abs-dotdot":
		return setDir + "/zz/../" + rel
	case "abs-parent-dotdot":
		return filepath.Dir(setDir) + "/" + filepath.Base(setDir) + "/../" + filepath.Base(setDir) + "/" + rel
	}
	// relative spellings depend on cwd
	var relp string
	switch cwd {
	case "set":
		relp = rel
	case "parent":
		relp = filepath.Base(setDir) + "/" + rel
	default:
		return abs
	}
	switch spell {
	case "rel":
		return relp
	case "rel-dot":
		return "./" + relp
	case "rel-dslash":
		return strings.Replace(relp, "/", "//", 1)
	case "rel-dotdot":
		return "./qq/../" + relp
	}
	return abs
}

func (c *c17) Run(cs core.Case) core.Result {
	var p c17Params
	core.Decode(cs, &p)
	r := core.NewR(cs)
	rng := rand.New(rand.NewSource(p.Seed))
	if strings.Contains(p.Fmt, "-encoder:") {
		// <format>-encoder:<history>
		i := strings.Index(p.Fmt, "-encoder:")
		encoderHistoryDifferential(r, p.Fmt[:i], p.Fmt[i+9:], "create-output-varies|encoder-reuse", rng)
		return r.Done()
	}
	if p.Fmt == "par2-concurrent" || p.Fmt == "par1-concurrent" {
		c.runConcurrent(r, p, rng)
		return r.Done()
	}
	if p.Fmt == "par2-big-volumes" ||
		p.Fmt == "par2-defaults" || p.Fmt == "par1-defaults" || p.Fmt == "par2-empty-file" {
		c.runOutcomes(r, p, rng)
		return r.Done()
	}
	root, err := os.MkdirTemp("", "c17-")
	if err != nil {
		r.Inconclusive("tempdir: %v", err)
		return r.Done()
	}
	defer os.RemoveAll(root)
	origWd, _ := os.Getwd()
	defer os.Chdir(origWd)
	other := filepath.Join(root, "elsewhere")
	os.MkdirAll(other, 0755)

	var set scen.Set
	if p.Fmt == "par2" {
		set = genP2Set(rng, 6, []string{"random", "random", "period", "zeros"}, false)
		set.Blocks = []int{1, 3, 7, 15, 15, 20}[rng.Intn(6)]
		if p.Seed%7 == 3 {
			// two files of equal size whose first 16 KiB are the same bytes
			// (same 16k hash, same length) and which differ behind that
			head := scen.GenData(rng, "random", 16384, set.SliceSize)
			tailLen := 100 + rng.Intn(5000)
			for k := 0; k < 2; k++ {
				d := append(append([]byte(nil), head...), scen.GenData(rng, "random", tailLen, set.SliceSize)...)
				set.Files = append(set.Files, scen.File{Name: fmt.Sprintf("same-start-%d.bin", k), Data: d})
			}
			if set.SliceSize < 400 {
				set.SliceSize = 2000
			}
		}
		if p.Seed%5 == 0 {
			// dozens of small files: IDs agreeing in their last byte(s) become likely,
			// so the ordering of the recovery set is really exercised
			set.Files = nil
			for i := 0; i < 48+rng.Intn(24); i++ {
				set.Files = append(set.Files, scen.File{Name: fmt.Sprintf("m%02d.bin", i), Data: scen.GenData(rng, "random", 1+rng.Intn(3*set.SliceSize), set.SliceSize)})
			}
			set.Blocks = 2
		}
	} else {
		fs := genP1Files(rng, 1+rng.Intn(5))
		for i := range fs {
			if len(fs[i].Data) > 2000 {
				fs[i].Data = fs[i].Data[:2000]
			}
		}
		set = scen.Set{Files: fs, Blocks: 1 + rng.Intn(5), SliceSize: 4}
	}
	inputs := map[string]bool{}
	for _, f := range set.Files {
		inputs[filepath.FromSlash(f.Name)] = true
	}
	ext := map[string]string{"par2": ".par2", "par1": ".par"}[p.Fmt]
	parExe := os.Getenv("VW_PAR_EXE")

	var refFiles map[string]string
	run := func(tag string, v c17Variant) map[string]string {
		top := filepath.Join(root, tag)
		setDir := filepath.Join(top, c17SetDirName)
		if _, err := set.Materialize(setDir); err != nil {
			r.Inconclusive("materialize: %v", err)
			return nil
		}
		os.MkdirAll(filepath.Join(setDir, "zz"), 0755)
		os.MkdirAll(filepath.Join(setDir, "qq"), 0755)
		os.MkdirAll(filepath.Join(top, "qq"), 0755)
		if v.over {
			// what an earlier Create with other parameters would have left behind:
			// longer files under the same names (and one shorter)
			k := 0
			for name, sig := range refFiles {
				var n int
				fmt.Sscanf(sig[strings.LastIndex(sig, ":")+1:], "%d", &n)
				junk := scen.Garbage(rng, n+1+rng.Intn(4000))
				if k%4 == 3 {
					junk = junk[:n/2]
				}
				k++
				os.WriteFile(filepath.Join(setDir, name), junk, 0644)
			}
		}
		cwdPath := map[string]string{"set": setDir, "parent": top, "other": other}[v.cwd]
		order := make([]int, len(set.Files))
		for i := range order {
			order[i] = i
		}
		if v.perm {
			rng.Shuffle(len(order), func(i, j int) { order[i], order[j] = order[j], order[i] })
		}
		var paths []string
		for _, i := range order {
			paths = append(paths, spellPath(v.spell, setDir, filepath.FromSlash(set.Files[i].Name), v.cwd))
		}
		idx := spellPath(v.spell, setDir, "arch"+ext, v.cwd)
		core.Note("C17 %s variant=%+v idx=%s", p.Fmt, v, idx)
		if v.cli {
			args := []string{"-g", fmt.Sprint(v.g), "c", "-s", fmt.Sprint(set.SliceSize), "-c", fmt.Sprint(set.Blocks), idx}
			args = append(args, paths...)
			cmd := exec.Command(parExe, args...)
			cmd.Dir = cwdPath
			out, err := cmd.CombinedOutput()
			if err != nil {
				r.Violate("create-failed|cli|"+v.name, "par %v in %s: %v\n%s", args, cwdPath, err, tailStr(string(out), 600))
				return nil
			}
		} else {
			if err := os.Chdir(cwdPath); err != nil {
				r.Inconclusive("chdir: %v", err)
				return nil
			}
			var cerr error
			pi := core.Protect(func() {
				if p.Fmt == "par2" {
					cerr = par2.Create(idx, paths, par2.CreateOptions{SliceByteCount: set.SliceSize, NumParityShards: set.Blocks, NumGoroutines: v.g})
				} else {
					cerr = par1.Create(idx, paths, par1.CreateOptions{NumParityFiles: set.Blocks})
				}
			})
			os.Chdir(origWd)
			if pi != nil {
				r.Violate("create-panic|"+pi.Frame, "variant %+v: %s", v, pi.Msg)
				return nil
			}
			if cerr != nil {
				r.Violate("create-failed|lib|"+v.name, "variant %+v (idx %q, first path %q): %v", v, idx, paths[0], cerr)
				return nil
			}
		}
		cf := createdFiles(setDir, inputs)
		delete(cf, "zz")
		delete(cf, "qq")
		// inputs must be untouched
		for i, f := range set.Files {
			b, err := os.ReadFile(filepath.Join(setDir, filepath.FromSlash(f.Name)))
			if err != nil || string(b) != string(f.Data) {
				r.Violate("create-modified-input", "variant %+v: input %d changed", v, i)
			}
		}
		os.RemoveAll(top)
		return cf
	}
	ref := run("ref", c17Variant{name: "reference", cwd: "other", spell: "abs", g: 1})
	if ref == nil {
		return r.Done()
	}
	if len(ref) < 2 {
		r.Violate("create-wrote-too-little", "reference Create wrote %d files", len(ref))
		return r.Done()
	}
	refFiles = ref
	var variants []c17Variant
	for i := 0; i < 10; i++ {
		variants = append(variants, c17Variant{name: fmt.Sprintf("repeat-%d", i), cwd: "other", spell: "abs", g: 1})
	}
	for _, g := range []int{2, 3, 7, 16, 64} {
		variants = append(variants, c17Variant{name: fmt.Sprintf("g=%d", g), cwd: "other", spell: "abs", g: g})
	}
	variants = append(variants, c17Variant{name: "over-existing-longer-files", cwd: "other", spell: "abs", g: 1, over: true},
		c17Variant{name: "over-existing-longer-files,cwd=set", cwd: "set", spell: "rel", g: 3, over: true})
	if parExe != "" {
		variants = append(variants, c17Variant{name: "cli,over-existing-longer-files", cwd: "parent", spell: "rel", g: 2, over: true, cli: true})
	}
	if p.Fmt == "par2" {
		for i := 0; i < 3; i++ {
			variants = append(variants, c17Variant{name: "permuted-inputs", cwd: "other", spell: "abs", g: 2, perm: true})
		}
	}
	for _, cwd := range []string{"set", "parent", "other"} {
		for _, sp := range []string{"rel", "rel-dot", "rel-dslash", "rel-dotdot", "abs", "abs-dslash", "abs-dot", "abs-dotdot", "abs-parent-dotdot"} {
			if cwd == "other" && strings.HasPrefix(sp, "rel") {
				continue
			}
			if p.Fmt == "par1" && (sp == "rel-dotdot" || sp == "abs-dotdot" || sp == "abs-parent-dotdot") && false {
				continue
			}
			variants = append(variants, c17Variant{name: "cwd=" + cwd + ",spell=" + sp, cwd: cwd, spell: sp, g: 3, perm: p.Fmt == "par2" && rng.Intn(2) == 0})
			if parExe != "" && rng.Intn(3) == 0 {
				variants = append(variants, c17Variant{name: "cli,cwd=" + cwd + ",spell=" + sp, cwd: cwd, spell: sp, g: 2, cli: true})
			}
		}
	}
	if parExe != "" {
		variants = append(variants, c17Variant{name: "cli,cwd=set,spell=rel", cwd: "set", spell: "rel", g: 5, cli: true},
			c17Variant{name: "cli,cwd=other,spell=abs", cwd: "other", spell: "abs", g: 1, cli: true})
	}
	for i, v := range variants {
		got := run(fmt.Sprintf("v%d", i), v)
		if got == nil {
			continue
		}
		if d := scen.DiffSnap(ref, got); len(d) > 0 {
			r.Violate("create-output-varies|"+variantClass(v.name), "%s Create output differs from the reference under variation %q (slice=%d blocks=%d files=%d): %v", p.Fmt, v.name, set.SliceSize, set.Blocks, len(set.Files), d)
		}
		r.Count("variant_runs", 1)
		if v.cli {
			r.Count("cli_runs", 1)
		}
		r.Key("%s|%s|f=%d|b=%d", p.Fmt, v.name, len(set.Files), set.Blocks)
	}
	// A batch loop: the caller keeps ONE slice of relative input names and
	// creates the same archive in several directories in turn (chdir between
	// the calls). Every output must equal the reference, and the caller's
	// slice must still hold what the caller put there.
	if p.Fmt == "par2" || p.Fmt == "par1" {
		var rel []string
		for _, f := range set.Files {
			rel = append(rel, filepath.FromSlash(f.Name))
		}
		relCopy := append([]string(nil), rel...)
		for k := 0; k < 3; k++ {
			top := filepath.Join(root, fmt.Sprintf("batch%d", k))
			setDir := filepath.Join(top, c17SetDirName)
			if _, err := set.Materialize(setDir); err != nil {
				break
			}
			if os.Chdir(setDir) != nil {
				break
			}
			var cerr error
			pi := core.Protect(func() {
				if p.Fmt == "par2" {
					cerr = par2.Create("arch"+ext, rel, par2.CreateOptions{SliceByteCount: set.SliceSize, NumParityShards: set.Blocks, NumGoroutines: 2})
				} else {
					cerr = par1.Create("arch"+ext, rel, par1.CreateOptions{NumParityFiles: set.Blocks})
				}
			})
			os.Chdir(origWd)
			switch {
			case pi != nil:
				r.Violate("create-panic|"+pi.Frame, "batch call %d: %s", k, pi.Msg)
			case cerr != nil:
				r.Violate("create-failed|lib|batch-reuse-of-path-slice", "call %d of a batch loop that reuses one slice of relative names (now %q...): %v", k, rel[0], cerr)
			default:
				cf := createdFiles(setDir, inputs)
				if d := scen.DiffSnap(ref, cf); len(d) > 0 {
					r.Violate("create-output-varies|batch-reuse-of-path-slice", "call %d of a batch loop that reuses one slice of relative names: output differs from the reference: %v", k, d)
				}
			}
			for i := range rel {
				if rel[i] != relCopy[i] {
					r.Violate("create-output-varies|caller-arguments-overwritten", "after call %d the caller's path slice holds %q where it had put %q", k, rel[i], relCopy[i])
					copy(rel, relCopy)
					break
				}
			}
			os.RemoveAll(top)
			r.Count("batch_calls", 1)
		}
	}
	// The same set created by several goroutines at once (separate directories):
	// every output must equal the reference.
	if p.Seed%3 == 0 {
		const par = 4
		type res struct {
			files map[string]string
			err   error
		}
		outs := make([]res, par)
		var wg sync.WaitGroup
		var dirs []string
		for k := 0; k < par; k++ {
			top := filepath.Join(root, fmt.Sprintf("conc%d", k))
			setDir := filepath.Join(top, c17SetDirName)
			set.Materialize(setDir)
			dirs = append(dirs, setDir)
		}
		for k := 0; k < par; k++ {
			wg.Add(1)
			go func(k int) {
				defer wg.Done()
				var paths []string
				for _, f := range set.Files {
					paths = append(paths, filepath.Join(dirs[k], filepath.FromSlash(f.Name)))
				}
				idx := filepath.Join(dirs[k], "arch"+ext)
				pi := core.Protect(func() {
					if p.Fmt == "par2" {
						outs[k].err = par2.Create(idx, paths, par2.CreateOptions{SliceByteCount: set.SliceSize, NumParityShards: set.Blocks, NumGoroutines: 1 + k})
					} else {
						outs[k].err = par1.Create(idx, paths, par1.CreateOptions{NumParityFiles: set.Blocks})
					}
				})
				if pi != nil {
					outs[k].err = fmt.Errorf("panic: %s", pi.Msg)
				}
			}(k)
		}
		wg.Wait()
		for k := 0; k < par; k++ {
			if outs[k].err != nil {
				r.Violate("create-failed|concurrent", "concurrent Create #%d: %v", k, outs[k].err)
				continue
			}
			got := createdFiles(dirs[k], inputs)
			if d := scen.DiffSnap(ref, got); len(d) > 0 {
				r.Violate("create-output-varies|concurrent-creates", "%s Create output differs from the reference when %d Creates of the same set run concurrently in one process: %v", p.Fmt, par, d)
			}
			r.Count("variant_runs", 1)
			r.Key("%s|concurrent-create|%d", p.Fmt, k)
		}
	}
	// An input list that mentions a file twice: whatever Create does with it, the
	// result must not depend on how the repeat is spelled.
	if p.Fmt == "par2" && len(set.Files) >= 2 {
		runRepeat := func(tag, spellRepeat, cwd string) (map[string]string, error) {
			top := filepath.Join(root, tag)
			setDir := filepath.Join(top, c17SetDirName)
			set.Materialize(setDir)
			cwdPath := map[string]string{"set": setDir, "other": other}[cwd]
			var paths []string
			for _, f := range set.Files {
				paths = append(paths, filepath.Join(setDir, filepath.FromSlash(f.Name)))
			}
			first := filepath.FromSlash(set.Files[0].Name)
			switch spellRepeat {
			case "same":
				paths = append(paths, paths[0])
			case "dot":
				paths = append(paths, setDir+"/./"+first)
			case "rel":
				paths = append(paths, first)
			case "dslash":
				paths = append(paths, setDir+"//"+first)
			}
			os.Chdir(cwdPath)
			var cerr error
			pi := core.Protect(func() {
				cerr = par2.Create(filepath.Join(setDir, "rep.par2"), paths, par2.CreateOptions{SliceByteCount: set.SliceSize, NumParityShards: 2, NumGoroutines: 2})
			})
			os.Chdir(origWd)
			if pi != nil {
				return nil, fmt.Errorf("panic: %s", pi.Msg)
			}
			cf := createdFiles(setDir, inputs)
			os.RemoveAll(top)
			return cf, cerr
		}
		refRep, refErr := runRepeat("rep-ref", "same", "other")
		for _, sp := range []struct{ spell, cwd string }{{"dot", "other"}, {"dslash", "other"}, {"rel", "set"}, {"same", "set"}} {
			got, err := runRepeat("rep-"+sp.spell+"-"+sp.cwd, sp.spell, sp.cwd)
			if (err == nil) != (refErr == nil) {
				r.Violate("create-output-varies|repeated-input-spelling", "a file listed twice: spelled identically Create gives err=%v, with the repeat spelled %q (cwd=%s) err=%v", refErr, sp.spell, sp.cwd, err)
			} else if d := scen.DiffSnap(refRep, got); len(d) > 0 {
				r.Violate("create-output-varies|repeated-input-spelling", "a file listed twice: output differs between an identically spelled repeat and the repeat spelled %q (cwd=%s): %v", sp.spell, sp.cwd, d)
			}
			r.Count("variant_runs", 1)
			r.Key("%s|repeat-%s-%s|f=%d", p.Fmt, sp.spell, sp.cwd, len(set.Files))
		}
	}
	ss := setSummary(set)
	ss["format"] = p.Fmt
	ss["variants"] = len(variants)
	ss["files_written"] = len(ref)
	r.Sample(ss)
	return r.Done()
}

func variantClass(n string) string {
	if i := strings.Index(n, "-"); i > 0 && strings.HasPrefix(n, "repeat") {
		return "repeat"
	}
	if strings.HasPrefix(n, "permutation-") {
		return "permutation"
	}
	return n
}

func tailStr(s string, n int) string {
	if len(s) > n {
		return "…" + s[len(s)-n:]
	}
	return s
}
