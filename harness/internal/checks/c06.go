package checks

import (
	"crypto/md5"
	"fmt"
	"math/rand"
	"os"
	"path/filepath"
	"sort"

	"github.com/akalin/gopar/par2"

	"verifharness/internal/core"
	"verifharness/internal/ref/par2rw"
	"verifharness/internal/scen"
)

// C06 — gopar reads any conformant PAR2 set, however it is laid out.

type c06 struct{ base }

type c06Params struct {
	Seed  int64  `json:"seed"`
	Fixed string `json:"fixed,omitempty"`
}

func init() {
	register(&c06{base{
		id:          "C06",
		level:       lvlExploration,
		rule:        "each case: an independent PAR2 writer emits a set for seeded files (ASCII names, some in sub-directories) with a seeded layout: base name drawn from a corpus with spaces and glob metacharacters, recovery blocks with a random exponent subset of 0..4000 spread over 1..6 arbitrarily named <base>.*.par2 files, packets permuted and duplicated, packets of a foreign recovery set (with clashing exponents) and of unknown types interleaved, volume files with or without copies of the main/description/checksum packets; the index file stays free of recovery packets and starts with a packet of its own set, every file has a creator packet. Then real par2.Verify must count every slice and exactly the distinct exponents written; after seeded damage within capacity real par2.Repair must restore all files (singularity of the forced system decided by reference). A key is (base-name class, #volume files, exponent-set class, layout features). A sixth of the sets contain files above 16 KiB.. The interleaved foreign set contains a dot file, an empty file and a ../ name; recovery files with the main packet but only part of the description/checksum packets.. Pinned case limit-32768-slices. A quarter of the sets carry a non-recovery set (described, unprotected files) larger than the recovery set.",
		assumptions: commonAssumptions,
		opts:        core.WorkerOpts{CrashIsViolation: true, WallSeconds: 2400},
	}})
}

var c06Bases = []string{"data", "backup", "set2", "extra.", "par2", "plain", "with space", "my[1]", "open[bracket", "star*name", "q?mark", "back\\slash", "a.b.c", "[x]-y z*", "vol00+01", "tab\tname", "{brace}", "UPPER.PAR2x", "-dash", "ünï"}
var c06VolNames = []string{"vol00+01", "vol0+1", "recovery 1", "[a]", "x*y", "q?", "b\\c", "vol01+02", "part.two", "vol000+100", "..", "z", "vol3+4 (copy)", "{1}", "ä"}
var c06Fixed = []string{"glob-base", "volume-without-main", "dup-main-in-volume", "limit-32768-slices"}

func (c *c06) Cases(tier string, seed int64) []core.Case {
	var cs []core.Case
	r := core.Rng("C06", tier, seed)
	for _, f := range c06Fixed {
		cs = append(cs, core.MkCase("fixed-"+f, c06Params{Seed: 7, Fixed: f}))
	}
	n := map[string]int{"quick": 400, "thorough": 30000}[tier]
	for i := 0; i < n; i++ {
		cs = append(cs, core.MkCase(fmt.Sprintf("layout-%d", i), c06Params{Seed: r.Int63()}))
	}
	return cs
}

func unknownPacket(rng *rand.Rand, setID [16]byte) par2rw.Packet {
	var t [16]byte
	copy(t[:], "PAR 2.0\x00Unknown!")
	if rng.Intn(2) == 0 {
		copy(t[:], "PAR 2.0\x00UniFileN")
	}
	body := make([]byte, 4*rng.Intn(10)) // a quarter of these have an EMPTY body (packet length exactly 64)
	if rng.Intn(4) == 0 {
		body = nil
	}
	rng.Read(body)
	return par2rw.Packet{SetID: setID, Type: t, Body: body}
}

func (c *c06) Run(cs core.Case) core.Result {
	var p c06Params
	core.Decode(cs, &p)
	r := core.NewR(cs)
	rng := rand.New(rand.NewSource(p.Seed))
	set := genP2Set(rng, 5, []string{"random"}, true)
	if set.SliceSize > 512 {
		set.SliceSize = 64
	}
	if p.Fixed == "limit-32768-slices" {
		// the most slices a PAR 2.0 recovery set can have
		set = scen.Set{SliceSize: 4, Blocks: 3, Content: "random", Files: []scen.File{
			{Name: "most.bin", Data: scen.GenData(rng, "random", 4*32760-1, 4)},
			{Name: "rest.bin", Data: scen.GenData(rng, "random", 4*8, 4)},
		}}
	}
	var in []par2rw.InFile
	for _, f := range set.Files {
		in = append(in, par2rw.InFile{Name: f.Name, Data: f.Data})
	}
	ref := par2rw.BuildSet(set.SliceSize, in)
	total := set.TotalSlices()
	// A quarter of the sets also describe files that are NOT protected (the
	// non-recovery set of the main packet), more of them than protected files;
	// they are present and intact, described by their own packets.
	var nonRecPk []par2rw.Packet
	var nonRecFiles []par2rw.InFile
	if p.Seed%4 == 2 && p.Fixed == "" {
		for k := 0; k < len(in)+1+rng.Intn(3); k++ {
			nonRecFiles = append(nonRecFiles, par2rw.InFile{Name: fmt.Sprintf("described-only-%d.txt", k), Data: scen.Garbage(rng, 1+rng.Intn(3*set.SliceSize))})
		}
		extra := par2rw.BuildSet(set.SliceSize, nonRecFiles)
		ref.Main.IDs = append(ref.Main.IDs, extra.Main.IDs...)
		ref.SetID = md5.Sum(ref.Main.Body())
		for i := range extra.Files {
			d, c := extra.DescPacket(i), extra.IFSCPacket(i)
			d.SetID, c.SetID = ref.SetID, ref.SetID
			nonRecPk = append(nonRecPk, d, c)
		}
	}

	root, err := os.MkdirTemp("", "c06-")
	if err != nil {
		r.Inconclusive("tempdir: %v", err)
		return r.Done()
	}
	defer os.RemoveAll(root)
	dir := filepath.Join(root, "d[1] x")
	paths, _ := set.Materialize(dir)
	for _, f := range nonRecFiles {
		os.WriteFile(filepath.Join(dir, f.Name), f.Data, 0644)
	}

	base := c06Bases[rng.Intn(len(c06Bases))]
	nVolFiles := 1 + rng.Intn(6)
	features := map[string]bool{}
	// exponent set
	nExp := 1 + rng.Intn(10)
	var exps []int
	expClass := ""
	switch rng.Intn(4) {
	case 0:
		expClass = "contiguous-from-0"
		for e := 0; e < nExp; e++ {
			exps = append(exps, e)
		}
	case 1:
		expClass = "contiguous-offset"
		off := 1 + rng.Intn(3000)
		for e := 0; e < nExp; e++ {
			exps = append(exps, off+e)
		}
	default:
		expClass = "scattered"
		seen := map[int]bool{}
		for len(exps) < nExp {
			e := rng.Intn(4001)
			if !seen[e] {
				seen[e] = true
				exps = append(exps, e)
			}
		}
	}
	switch p.Fixed {
	case "glob-base":
		base, nVolFiles = "my[1] *?", 2
	case "volume-without-main":
		nVolFiles = 2
	case "dup-main-in-volume":
		nVolFiles = 1
	}
	sort.Ints(exps)
	// the other recovery set whose packets are interleaved: its files have names
	// and sizes this reader would not accept in its OWN set (a dot file, an
	// empty file) - they are none of its business
	foreign := par2rw.BuildSet(set.SliceSize, []par2rw.InFile{
		{Name: "foreign.bin", Data: scen.Garbage(rng, 3*set.SliceSize+1)},
		{Name: ".profile", Data: scen.Garbage(rng, set.SliceSize+3)},
		{Name: "empty.txt", Data: []byte{}},
		{Name: "../elsewhere/x", Data: scen.Garbage(rng, 5)},
	})

	// index file
	idxPk := []par2rw.Packet{ref.MainPacket()}
	idxPk = append(idxPk, ref.Critical()[1:]...)
	idxPk = append(idxPk, ref.CreatorPacket("verif reference writer"))
	idxPk = append(idxPk, nonRecPk...)
	if len(nonRecPk) > 0 {
		features["non-recovery-set"] = true
	}
	rng.Shuffle(len(idxPk), func(i, j int) { idxPk[i], idxPk[j] = idxPk[j], idxPk[i] })
	if rng.Intn(2) == 0 {
		features["dup-in-index"] = true
		idxPk = append(idxPk, idxPk[rng.Intn(len(idxPk))])
	}
	if rng.Intn(2) == 0 {
		features["unknown-in-index"] = true
		idxPk = append(idxPk, unknownPacket(rng, ref.SetID))
	}
	if rng.Intn(4) == 0 {
		features["empty-body-packets"] = true
		var t [16]byte
		copy(t[:], "PAR 2.0\x00Comment?")
		idxPk = append(idxPk, par2rw.Packet{SetID: ref.SetID, Type: t}, par2rw.Packet{SetID: foreign.SetID, Type: t})
	}
	if rng.Intn(3) == 0 {
		features["foreign-in-index"] = true
		// foreign packets may appear anywhere but first
		fp := foreign.Critical()
		idxPk = append(idxPk, fp[rng.Intn(len(fp))], foreign.CreatorPacket("other"))
		// keep an own-set packet first
		k := 1 + rng.Intn(len(idxPk)-1)
		idxPk[k], idxPk[len(idxPk)-1] = idxPk[len(idxPk)-1], idxPk[k]
	}
	if idxPk[0].SetID != ref.SetID {
		for i := range idxPk {
			if idxPk[i].SetID == ref.SetID {
				idxPk[0], idxPk[i] = idxPk[i], idxPk[0]
				break
			}
		}
	}
	idx := filepath.Join(dir, base+".par2")
	if err := os.WriteFile(idx, par2rw.Serialize(idxPk), 0644); err != nil {
		r.Inconclusive("cannot write index %q: %v", idx, err)
		return r.Done()
	}
	// volume files
	usedNames := map[string]bool{}
	volPk := make([][]par2rw.Packet, nVolFiles)
	for _, e := range exps {
		k := rng.Intn(nVolFiles)
		volPk[k] = append(volPk[k], ref.RecvPacket(uint32(e)))
		if rng.Intn(5) == 0 {
			features["dup-recv-across-files"] = true
			k2 := rng.Intn(nVolFiles)
			volPk[k2] = append(volPk[k2], ref.RecvPacket(uint32(e)))
		}
	}
	var volFiles []string
	for k := range volPk {
		name := c06VolNames[rng.Intn(len(c06VolNames))]
		for usedNames[name] {
			name += fmt.Sprint(k)
		}
		usedNames[name] = true
		pk := volPk[k]
		withCritical := rng.Intn(3) != 0
		if p.Fixed == "volume-without-main" {
			withCritical = false
		}
		if withCritical && rng.Intn(4) == 0 && len(ref.Files) >= 2 {
			// the main packet, but not every file's description and checksum
			// packet is repeated in this recovery file
			features["volume-with-partial-critical"] = true
			pk = append(pk, ref.MainPacket())
			skip := rng.Intn(len(ref.Files))
			for i := range ref.Files {
				if i != skip {
					pk = append(pk, ref.DescPacket(i))
				}
				if i != (skip+1)%len(ref.Files) {
					pk = append(pk, ref.IFSCPacket(i))
				}
			}
		} else if withCritical {
			pk = append(pk, ref.Critical()...)
			if rng.Intn(3) == 0 || p.Fixed == "dup-main-in-volume" {
				features["dup-main-in-volume"] = true
				pk = append(pk, ref.MainPacket())
			}
		} else {
			features["volume-without-critical"] = true
		}
		pk = append(pk, ref.CreatorPacket("verif reference writer"))
		if rng.Intn(2) == 0 {
			features["foreign-in-volume"] = true
			pk = append(pk, foreign.Critical()...)
			pk = append(pk, foreign.CreatorPacket("x"))
			for _, e := range exps[:1+rng.Intn(len(exps))] {
				pk = append(pk, foreign.RecvPacket(uint32(e)))
			}
		}
		if rng.Intn(2) == 0 {
			features["unknown-in-volume"] = true
			pk = append(pk, unknownPacket(rng, ref.SetID))
		}
		rng.Shuffle(len(pk), func(i, j int) { pk[i], pk[j] = pk[j], pk[i] })
		vp := filepath.Join(dir, base+"."+name+".par2")
		if rng.Intn(4) == 0 {
			// the recovery file beside the index is a symbolic link
			features["symlinked-volume"] = true
			store := filepath.Join(root, "store")
			os.MkdirAll(store, 0755)
			real := filepath.Join(store, fmt.Sprintf("v%d.bin", k))
			os.WriteFile(real, par2rw.Serialize(pk), 0644)
			if err := os.Symlink(real, vp); err != nil {
				r.Inconclusive("cannot symlink volume %q: %v", vp, err)
				return r.Done()
			}
		} else if err := os.WriteFile(vp, par2rw.Serialize(pk), 0644); err != nil {
			r.Inconclusive("cannot write volume %q: %v", vp, err)
			return r.Done()
		}
		volFiles = append(volFiles, filepath.Base(vp))
	}
	var fl []string
	for f := range features {
		fl = append(fl, f)
	}
	sort.Strings(fl)
	desc := fmt.Sprintf("base=%q volumes=%q exponents=%v features=%v set=%v", base, volFiles, exps, fl, setSummary(set))
	core.Note("C06 %s", desc)

	// Verify on the intact set.
	var vr par2.VerifyResult
	var verr error
	if pi := core.Protect(func() { vr, verr = par2.Verify(idx, par2.VerifyOptions{NumGoroutines: 2}) }); pi != nil {
		r.Violate(core.CrashSig("par2.Verify", pi.Frame, pi.Msg), "Verify panicked on a conformant set: %s; %s", pi.Msg, desc)
		return r.Done()
	}
	r.Count("verifies", 1)
	if verr != nil {
		r.Violate("verify-rejects-conformant-layout", "Verify error %v; %s", verr, desc)
		return r.Done()
	}
	sh := vr.ShardCounts
	if sh.UsableDataShardCount != total || sh.UnusableDataShardCount != 0 || sh.RepairNeeded() {
		r.Violate("intact-data-not-all-usable", "counts %+v, %d slices all intact; %s", sh, total, desc)
	}
	if sh.UsableParityShardCount != len(exps) {
		r.Violate("recovery-blocks-not-all-found", "UsableParityShardCount=%d, %d distinct intact blocks were written beside the index; %s", sh.UsableParityShardCount, len(exps), desc)
	}
	// Damage within capacity and repair.
	env := &p2env{root: root, dir: dir, idx: idx, set: set, st: scen.NewState(set), paths: paths, ref: ref, order: map[scen.SliceRef]int{}}
	kk := 0
	for _, rf := range ref.Files {
		fi := -1
		for i, f := range set.Files {
			if f.Name == rf.Name {
				fi = i
			}
		}
		for i := range rf.Slices {
			env.order[scen.SliceRef{F: fi, I: i}] = kk
			kk++
		}
	}
	for tries := 0; tries < 8; tries++ {
		st := scen.NewState(set)
		for i := 0; i < 1+rng.Intn(2); i++ {
			st.Apply(scen.RandomOp(rng, st))
		}
		if total-len(st.Witnessed()) <= len(exps) {
			env.st = st
			break
		}
	}
	env.sync()
	wit := env.st.Witnessed()
	_, skip := env.st.Find()
	k := total - len(wit)
	var rerr error
	if pi := core.Protect(func() {
		_, rerr = par2.Repair(idx, par2.RepairOptions{NumGoroutines: 3, DoubleCheck: rng.Intn(2) == 0})
	}); pi != nil {
		r.Violate(core.CrashSig("par2.Repair", pi.Frame, pi.Msg), "Repair panicked on a conformant set: %s; %s", pi.Msg, desc)
		return r.Done()
	}
	r.Count("repairs", 1)
	if k <= len(exps) {
		if rerr != nil {
			mE := missingOf(env.st.AllSlices(), skip, env.order)
			switch {
			case len(mE) > len(exps):
				r.Count("coincidence_or_known_scan_limit", 1)
			case env.forcedSingular(mE, exps):
				r.Count("singular_forced_systems", 1)
			default:
				r.Violate("repair-failed-within-capacity", "k=%d <= %d blocks, forced system non-singular, Repair failed: %v; ops=%v; %s", k, len(exps), rerr, env.st.Log, desc)
			}
		} else if w := env.wrongFiles(); len(w) > 0 {
			r.Violate("repair-nil-but-files-differ", "%v; %s", w, desc)
		}
	}
	r.Key("%s|v=%d|%s|%v", base, nVolFiles, expClass, fl)
	r.Sample(map[string]interface{}{"base": base, "volume_files": volFiles, "exponents": exps, "features": fl, "ops": env.st.Log, "k": k, "repair_error": fmt.Sprint(rerr)})
	return r.Done()
}
