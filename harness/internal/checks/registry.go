// Package checks holds one runtime-monitoring check per property.
package checks

import (
	"sort"

	"verifharness/internal/core"
)

var registry = map[string]core.Check{}

func register(c core.Check) { registry[c.ID()] = c }

// Get returns the check for a property id.
func Get(id string) core.Check { return registry[id] }

// IDs lists registered checks.
func IDs() []string {
	var ids []string
	for id := range registry {
		ids = append(ids, id)
	}
	sort.Strings(ids)
	return ids
}

// PostProcessor is implemented by checks that need a driver-side pass
// over all results (e.g. cross-case comparisons).
type PostProcessor interface {
	Post(tier string, cases []core.Case, results []core.Result)
}
