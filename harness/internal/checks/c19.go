package checks

import (
	"crypto/md5"
	"encoding/binary"
	"fmt"
	"math/rand"
	"os"
	"path/filepath"
	"runtime"
	"sort"
	"strings"

	"github.com/akalin/gopar/par1"
	"github.com/akalin/gopar/par2"

	"verifharness/internal/core"
	"verifharness/internal/ref/par1rw"
	"verifharness/internal/ref/par2rw"
	"verifharness/internal/scen"
)

// C19 — well-checksummed but inconsistent archives are rejected safely.

type c19 struct{ base }

type c19Params struct {
	Seed   int64  `json:"seed"`
	Fmt    string `json:"fmt"`
	Family string `json:"family"`
	Damage string `json:"damage"` // state of the data files: intact | one-missing | one-corrupt
	Part   int    `json:"part"`
	Parts  int    `json:"parts"`
}

func init() {
	register(&c19{base{
		id:          "C19",
		level:       lvlExploration,
		rule:        "a valid small set is re-emitted by the reference writers with ONE semantic mutation and fully re-checksummed (packet MD5s / PAR1 control hash; in 'rederive' mode also file IDs, set ID and set hash, so that only semantic validation can object): every numeric field of every PAR2 packet type and of the PAR1 header and entries x boundary values {0,1,v-1,v+1,max-1,max,2^31,2^32,2^62,2^63,2^64-1, remaining+-1, slice-multiple+-1}; bodies truncated/extended; removal and duplication of every packet type in index and volume files; recovery blocks of the wrong size; duplicate, unsorted, unknown and missing IDs; file lengths and hashes that disagree with the checksum lists; then seeded PAIRS of mutations and the full recovery-packet field grid applied to volumes stripped of their main/description/checksum packets. Each mutated archive is verified and repaired (data files intact, one missing, one corrupt) in a child capped at 4 GiB: no panic or fatal error; runtime.MemStats.Sys may not grow by more than 512 MiB for these < 1 MiB sets when the declared slice size is <= 64 KiB; 'no repair needed' only if every declared file has its declared hash; every file Repair creates or changes must be a declared name inside the directory whose bytes have the MD5 the archive itself declares. A key is (format, family, file, packet/field, value, data state). Fixed families: absurd slice sizes (finding L), sets whose files all have length 0, PAR1 indexes with 254..300 entries saved in the parity set. PAR1: every pair of header fields set to huge mutually consistent values; every third mutated index judged without its volumes.. The header length field of every packet set to 15 boundary values; PAR1: Verify's usable-volume count bounded by the volume files large enough to hold parity for the longest data file present. Every third mutation of the PAR2 index is also judged without recovery files; the last file of a set fits one slice; PAR1 volumes with consistently shortened recovery data standing alone; a clean verdict is held against the recovery set the index itself declares. PAR1: the usable-volume count is also bounded by the volume files large enough for the largest saved file a canonical index declares. The field grids of one set also run in a GOARCH=386 build of the worker. PAR1: data offset / data size pairs whose sum wraps around 2^64 to the file size. Fixed family illegal-slice-sizes: whole sets written consistently for slice sizes 1, 2, 3, 5, 6, 10, 18.",
		assumptions: append([]string{"an allocation failure is inconclusive when the mutation declares a slice/file size above the cap (memory proportional to a declared size is allowed by the property)"}, commonAssumptions...),
		opts:        core.WorkerOpts{CrashIsViolation: true, ASLimitMiB: 4096, WallSeconds: 2400, CPUSeconds: 1200},
	}})
}

func (c *c19) Cases(tier string, seed int64) []core.Case {
	var cs []core.Case
	r := core.Rng("C19", tier, seed)
	nsets := map[string]int{"quick": 1, "thorough": 10}[tier]
	parts := 8
	cs = append(cs, core.MkCase("fixed-absurd-slice-size", c19Params{Seed: 5, Fmt: "par2", Family: "fixed-absurd-slice-size", Damage: "intact", Parts: 1}))
	cs = append(cs, core.MkCase("fixed-illegal-slice-sizes", c19Params{Seed: 8, Fmt: "par2", Family: "fixed-illegal-slice-sizes", Damage: "intact", Parts: 1}))
	cs = append(cs, core.MkCase("fixed-par1-saved-counts", c19Params{Seed: 7, Fmt: "par1", Family: "fixed-par1-saved-counts", Damage: "intact", Parts: 1}))
	cs = append(cs, core.MkCase("fixed-all-files-empty", c19Params{Seed: 6, Fmt: "par2", Family: "fixed-all-files-empty", Damage: "intact", Parts: 1}))
	for s := 0; s < nsets; s++ {
		sd := r.Int63()
		for _, dmg := range []string{"intact", "one-missing", "one-corrupt"} {
			for _, fam := range []string{"fields", "fields-rederive", "structure", "pairs", "fields-bare-volumes"} {
				for pt := 0; pt < parts; pt++ {
					cs = append(cs, core.MkCase(fmt.Sprintf("par2-s%d-%s-%s-%d", s, fam, dmg, pt), c19Params{sd, "par2", fam, dmg, pt, parts}))
				}
			}
			for _, fam := range []string{"fields", "fields-rederive", "pairs"} {
				for pt := 0; pt < 2; pt++ {
					cs = append(cs, core.MkCase(fmt.Sprintf("par1-s%d-%s-%s-%d", s, fam, dmg, pt), c19Params{sd, "par1", fam, dmg, pt, 2}))
				}
			}
		}
	}
	// The field grids of the first set once more in the GOARCH=386 build of the
	// worker: counts and lengths that are converted to a 32-bit int there.
	{
		sd := core.Rng("C19-386", tier, seed).Int63()
		for _, fam := range []string{"fields", "fields-rederive"} {
			for pt := 0; pt < parts; pt++ {
				cc := core.MkCase(fmt.Sprintf("386:par2-%s-intact-%d", fam, pt), c19Params{sd, "par2", fam, "intact", pt, parts})
				cc.Arch386 = true
				cs = append(cs, cc)
			}
			for pt := 0; pt < 2; pt++ {
				cc := core.MkCase(fmt.Sprintf("386:par1-%s-one-missing-%d", fam, pt), c19Params{sd, "par1", fam, "one-missing", pt, 2})
				cc.Arch386 = true
				cs = append(cs, cc)
			}
		}
	}
	return cs
}

func boundary64(v uint64, extra ...uint64) []uint64 {
	vals := []uint64{0, 1, 2, 3, 4, v - 1, v + 1, v - 4, v + 4, v * 2, 1 << 16, 1<<16 + 4, 1 << 20, 1 << 31, 1<<31 - 1, 1 << 32, 1<<32 - 4, 1 << 33, 1 << 40, 1 << 62, 1 << 63, 1<<63 - 1, 1<<63 - 4, 1<<63 + 64, ^uint64(0), ^uint64(0) - 1, ^uint64(0) - 3}
	vals = append(vals, extra...)
	seen := map[uint64]bool{v: true}
	var out []uint64
	for _, x := range vals {
		if !seen[x] {
			seen[x] = true
			out = append(out, x)
		}
	}
	return out
}

func boundary32(v uint32, extra ...uint32) []uint32 {
	vals := []uint32{0, 1, 2, v - 1, v + 1, 1 << 16, 65535, 65536, 1 << 31, 1<<31 - 1, ^uint32(0), ^uint32(0) - 1}
	vals = append(vals, extra...)
	seen := map[uint32]bool{v: true}
	var out []uint32
	for _, x := range vals {
		if !seen[x] {
			seen[x] = true
			out = append(out, x)
		}
	}
	return out
}

// p2Mutation rewrites the packet lists of the archive files.
type p2Mutation struct {
	desc     string
	big      bool // declares a size above the cap
	apply    func(files map[string][]par2rw.Packet)
	rederive bool
}

// p2Archive is the parsed pristine archive.
type p2Archive struct {
	files map[string][]par2rw.Packet // relative name -> packets
	names []string
}

func cloneArchive(a map[string][]par2rw.Packet) map[string][]par2rw.Packet {
	out := map[string][]par2rw.Packet{}
	for k, v := range a {
		c := make([]par2rw.Packet, len(v))
		for i, p := range v {
			c[i] = p
			c[i].Body = append([]byte(nil), p.Body...)
		}
		out[k] = c
	}
	return out
}

// rederive makes the archive self-consistent again after a mutation of
// a file description: file IDs follow (16k hash, length, name), the main
// packet lists the new IDs sorted, IFSC packets follow, and every packet
// carries the new set ID.
func rederiveArchive(files map[string][]par2rw.Packet, oldSet [16]byte) {
	idMap := map[[16]byte][16]byte{}
	for _, pk := range files {
		for i := range pk {
			if pk[i].Type == par2rw.TypeFileDesc && pk[i].SetID == oldSet {
				if d, err := par2rw.DecodeFileDesc(pk[i].Body); err == nil {
					nid := par2rw.FileID(d.Hash16k, d.Length, []byte(d.Name()))
					if nid == d.ID {
						// an unmutated copy of the description (in another file of
						// the archive) must not undo the mapping of the mutated one
						continue
					}
					idMap[d.ID] = nid
					d.ID = nid
					pk[i].Body = d.Body()
				}
			}
		}
	}
	var newSet [16]byte
	haveSet := false
	for _, pk := range files {
		for i := range pk {
			if pk[i].SetID != oldSet {
				continue
			}
			switch pk[i].Type {
			case par2rw.TypeIFSC:
				if c, err := par2rw.DecodeIFSC(pk[i].Body); err == nil {
					if n, ok := idMap[c.ID]; ok {
						c.ID = n
						pk[i].Body = c.Body()
					}
				}
			case par2rw.TypeMain:
				if m, err := par2rw.DecodeMain(pk[i].Body); err == nil {
					for j := range m.IDs {
						if n, ok := idMap[m.IDs[j]]; ok {
							m.IDs[j] = n
						}
					}
					nr := int(m.NRecovery)
					if nr <= len(m.IDs) {
						rec := m.IDs[:nr]
						sort.Slice(rec, func(a, b int) bool { return par2rw.IDLess(rec[a], rec[b]) })
					}
					pk[i].Body = m.Body()
					if !haveSet {
						newSet = md5.Sum(pk[i].Body)
						haveSet = true
					}
				}
			}
		}
	}
	if !haveSet {
		return
	}
	for _, pk := range files {
		for i := range pk {
			if pk[i].SetID == oldSet {
				pk[i].SetID = newSet
			}
		}
	}
}

func typeName(t [16]byte) string {
	return strings.TrimRight(string(t[8:]), "\x00")
}

// p2Mutations enumerates single mutations of the given family.
func p2Mutations(a *p2Archive, family string, slice int, rng *rand.Rand) []p2Mutation {
	var ms []p2Mutation
	rd := family == "fields-rederive"
	add := func(desc string, big bool, f func(files map[string][]par2rw.Packet)) {
		ms = append(ms, p2Mutation{desc: desc, big: big, apply: f, rederive: rd})
	}
	for _, fn := range a.names {
		fn := fn
		for pi, p := range a.files[fn] {
			pi := pi
			where := fmt.Sprintf("%s#%d(%s)", fn, pi, typeName(p.Type))
			switch family {
			case "fields", "fields-rederive":
				switch p.Type {
				case par2rw.TypeMain:
					m, _ := par2rw.DecodeMain(p.Body)
					for _, v := range boundary64(m.SliceSize, uint64(slice)-4, uint64(slice)+4, 65536, 65540) {
						v := v
						add(fmt.Sprintf("%s slice size %d -> %d", where, m.SliceSize, v), v > 65536, func(f map[string][]par2rw.Packet) {
							mm, _ := par2rw.DecodeMain(f[fn][pi].Body)
							mm.SliceSize = v
							f[fn][pi].Body = mm.Body()
						})
					}
					for _, v := range boundary32(m.NRecovery, uint32(len(m.IDs))+1) {
						v := v
						add(fmt.Sprintf("%s recovery-set count %d -> %d", where, m.NRecovery, v), false, func(f map[string][]par2rw.Packet) {
							b := f[fn][pi].Body
							binary.LittleEndian.PutUint32(b[8:], v)
						})
					}
					if len(m.IDs) > 1 {
						add(where+" file ids reversed (unsorted)", false, func(f map[string][]par2rw.Packet) {
							mm, _ := par2rw.DecodeMain(f[fn][pi].Body)
							for i, j := 0, len(mm.IDs)-1; i < j; i, j = i+1, j-1 {
								mm.IDs[i], mm.IDs[j] = mm.IDs[j], mm.IDs[i]
							}
							f[fn][pi].Body = mm.Body()
						})
						add(where+" duplicate file id", false, func(f map[string][]par2rw.Packet) {
							mm, _ := par2rw.DecodeMain(f[fn][pi].Body)
							mm.IDs[1] = mm.IDs[0]
							f[fn][pi].Body = mm.Body()
						})
					}
					add(where+" unknown file id appended to recovery set", false, func(f map[string][]par2rw.Packet) {
						mm, _ := par2rw.DecodeMain(f[fn][pi].Body)
						var x [16]byte
						for i := range x {
							x[i] = 0xff
						}
						mm.IDs = append(mm.IDs, x)
						mm.NRecovery++
						f[fn][pi].Body = mm.Body()
					})
					add(where+" last file id dropped", false, func(f map[string][]par2rw.Packet) {
						mm, _ := par2rw.DecodeMain(f[fn][pi].Body)
						mm.IDs = mm.IDs[:len(mm.IDs)-1]
						mm.NRecovery = uint32(len(mm.IDs))
						f[fn][pi].Body = mm.Body()
					})
					add(where+" one id moved to the non-recovery set", false, func(f map[string][]par2rw.Packet) {
						mm, _ := par2rw.DecodeMain(f[fn][pi].Body)
						if mm.NRecovery > 1 {
							mm.NRecovery--
						}
						f[fn][pi].Body = mm.Body()
					})
				case par2rw.TypeFileDesc:
					d, _ := par2rw.DecodeFileDesc(p.Body)
					ns := (d.Length + uint64(slice) - 1) / uint64(slice)
					for _, v := range boundary64(d.Length, ns*uint64(slice), ns*uint64(slice)+1, (ns-1)*uint64(slice), (ns-1)*uint64(slice)+1, (ns+1)*uint64(slice), 16384, 16385) {
						v := v
						add(fmt.Sprintf("%s file length %d -> %d", where, d.Length, v), v > 1<<20, func(f map[string][]par2rw.Packet) {
							dd, _ := par2rw.DecodeFileDesc(f[fn][pi].Body)
							dd.Length = v
							f[fn][pi].Body = dd.Body()
						})
					}
					add(where+" file MD5 field wrong (16k hash right)", false, func(f map[string][]par2rw.Packet) {
						dd, _ := par2rw.DecodeFileDesc(f[fn][pi].Body)
						dd.Hash[3] ^= 0x5a
						f[fn][pi].Body = dd.Body()
					})
					add(where+" 16k hash field wrong (file MD5 right)", false, func(f map[string][]par2rw.Packet) {
						dd, _ := par2rw.DecodeFileDesc(f[fn][pi].Body)
						dd.Hash16k[3] ^= 0x5a
						f[fn][pi].Body = dd.Body()
					})
					add(where+" file id field wrong", false, func(f map[string][]par2rw.Packet) {
						dd, _ := par2rw.DecodeFileDesc(f[fn][pi].Body)
						dd.ID[0] ^= 1
						f[fn][pi].Body = dd.Body()
					})
					add(where+" name emptied", false, func(f map[string][]par2rw.Packet) {
						dd, _ := par2rw.DecodeFileDesc(f[fn][pi].Body)
						dd.RawName = nil
						f[fn][pi].Body = dd.Body()
					})
					add(where+" name all NUL", false, func(f map[string][]par2rw.Packet) {
						dd, _ := par2rw.DecodeFileDesc(f[fn][pi].Body)
						dd.RawName = make([]byte, 8)
						f[fn][pi].Body = dd.Body()
					})
				case par2rw.TypeIFSC:
					add(where+" last checksum pair dropped", false, func(f map[string][]par2rw.Packet) {
						cc, _ := par2rw.DecodeIFSC(f[fn][pi].Body)
						cc.Pairs = cc.Pairs[:len(cc.Pairs)-1]
						f[fn][pi].Body = cc.Body()
					})
					add(where+" all checksum pairs dropped", false, func(f map[string][]par2rw.Packet) {
						cc, _ := par2rw.DecodeIFSC(f[fn][pi].Body)
						cc.Pairs = nil
						f[fn][pi].Body = cc.Body()
					})
					for _, extra := range []int{1, 2, 100} {
						extra := extra
						add(fmt.Sprintf("%s %d extra checksum pairs", where, extra), false, func(f map[string][]par2rw.Packet) {
							cc, _ := par2rw.DecodeIFSC(f[fn][pi].Body)
							for i := 0; i < extra; i++ {
								cc.Pairs = append(cc.Pairs, cc.Pairs[i%len(cc.Pairs)])
							}
							f[fn][pi].Body = cc.Body()
						})
					}
					add(where+" checksum of slice 0 wrong", false, func(f map[string][]par2rw.Packet) {
						cc, _ := par2rw.DecodeIFSC(f[fn][pi].Body)
						cc.Pairs[0].CRC ^= 1
						f[fn][pi].Body = cc.Body()
					})
					add(where+" file id unknown", false, func(f map[string][]par2rw.Packet) {
						cc, _ := par2rw.DecodeIFSC(f[fn][pi].Body)
						cc.ID[5] ^= 0x10
						f[fn][pi].Body = cc.Body()
					})
					add(where+" body cut inside a pair", false, func(f map[string][]par2rw.Packet) {
						b := f[fn][pi].Body
						f[fn][pi].Body = b[:len(b)-4]
					})
				case par2rw.TypeRecv:
					rv, _ := par2rw.DecodeRecv(p.Body)
					for _, v := range boundary32(rv.Exp, 32767, 32768) {
						v := v
						add(fmt.Sprintf("%s exponent %d -> %d", where, rv.Exp, v), false, func(f map[string][]par2rw.Packet) {
							binary.LittleEndian.PutUint32(f[fn][pi].Body, v)
						})
					}
					for _, dl := range []int{-slice, -slice + 4, -8, -4, 4, 8, slice, 4 * slice} {
						dl := dl
						add(fmt.Sprintf("%s recovery data size %d -> %d", where, len(rv.Data), len(rv.Data)+dl), false, func(f map[string][]par2rw.Packet) {
							b := f[fn][pi].Body
							if dl < 0 {
								if len(b)+dl >= 4 {
									f[fn][pi].Body = b[:len(b)+dl]
								}
							} else {
								f[fn][pi].Body = append(b, make([]byte, dl)...)
							}
						})
					}
				case par2rw.TypeCreator:
					add(where+" creator body emptied", false, func(f map[string][]par2rw.Packet) { f[fn][pi].Body = nil })
					add(where+" creator body non-ASCII", false, func(f map[string][]par2rw.Packet) {
						f[fn][pi].Body = []byte{0xff, 0xfe, 0x80, 0x00}
					})
				}
				if !rd {
					add(where+" body emptied", false, func(f map[string][]par2rw.Packet) { f[fn][pi].Body = nil })
					add(where+" body truncated by 4", false, func(f map[string][]par2rw.Packet) {
						if b := f[fn][pi].Body; len(b) >= 4 {
							f[fn][pi].Body = b[:len(b)-4]
						}
					})
					add(where+" body extended by 4 zero bytes", false, func(f map[string][]par2rw.Packet) {
						f[fn][pi].Body = append(f[fn][pi].Body, 0, 0, 0, 0)
					})
				}
			case "structure":
				add(where+" removed", false, func(f map[string][]par2rw.Packet) {
					f[fn] = append(append([]par2rw.Packet(nil), f[fn][:pi]...), f[fn][pi+1:]...)
				})
				add(where+" duplicated", false, func(f map[string][]par2rw.Packet) {
					f[fn] = append(f[fn], f[fn][pi])
				})
				add(where+" moved to the front", false, func(f map[string][]par2rw.Packet) {
					x := f[fn][pi]
					rest := append(append([]par2rw.Packet(nil), f[fn][:pi]...), f[fn][pi+1:]...)
					f[fn] = append([]par2rw.Packet{x}, rest...)
				})
				// the length field of the packet header lies outside the packet MD5:
				// every other byte of the packet stays what it was
				trueLen := uint64(64 + len(p.Body))
				for _, v := range []uint64{4, 60, 64, trueLen - 4, trueLen + 4, trueLen + 64, 1 << 31, 1 << 32, 1 << 62, 1 << 63, 1<<63 + 64, 1<<63 + 68, 1<<63 + trueLen, ^uint64(0) - 3, ^uint64(0)} {
					v := v
					if v == trueLen || v == 0 {
						continue
					}
					add(fmt.Sprintf("%s header length %d -> %d", where, trueLen, v), false, func(f map[string][]par2rw.Packet) {
						f[fn][pi].HeaderLen = v
					})
				}
				add(where+" duplicated with altered body", false, func(f map[string][]par2rw.Packet) {
					x := f[fn][pi]
					x.Body = append([]byte(nil), x.Body...)
					if len(x.Body) > 0 {
						x.Body[len(x.Body)-1] ^= 1
					}
					f[fn] = append(f[fn], x)
				})
			}
		}
		if family == "structure" {
			types := map[[16]byte]bool{}
			for _, p := range a.files[fn] {
				types[p.Type] = true
			}
			for t := range types {
				t := t
				add(fmt.Sprintf("%s all %s packets removed", fn, typeName(t)), false, func(f map[string][]par2rw.Packet) {
					var out []par2rw.Packet
					for _, p := range f[fn] {
						if p.Type != t {
							out = append(out, p)
						}
					}
					f[fn] = out
				})
			}
			add(fn+" recovery packet copied into the index file", false, func(f map[string][]par2rw.Packet) {
				for _, p := range f[fn] {
					if p.Type == par2rw.TypeRecv {
						f[a.names[0]] = append(f[a.names[0]], p)
						return
					}
				}
			})
			add(fn+" emptied of packets", false, func(f map[string][]par2rw.Packet) { f[fn] = nil })
		}
	}
	if family == "structure" {
		add("ALL recovery packets removed from every volume (volumes stay well-formed)", false, func(f map[string][]par2rw.Packet) {
			for _, nme := range a.names[1:] {
				var out []par2rw.Packet
				for _, q := range f[nme] {
					if q.Type != par2rw.TypeRecv {
						out = append(out, q)
					}
				}
				f[nme] = out
			}
		})
		add("every volume reduced to its creator packet", false, func(f map[string][]par2rw.Packet) {
			for _, nme := range a.names[1:] {
				var out []par2rw.Packet
				for _, q := range f[nme] {
					if q.Type == par2rw.TypeCreator {
						out = append(out, q)
					}
				}
				f[nme] = out
			}
		})
	}
	return ms
}

type c19Judge struct {
	fmt      string
	dir, idx string
	root     string
	big      bool
}

// declared collects name -> acceptable MD5s from the archive on disk.
func (j *c19Judge) declared() map[string]map[[16]byte]bool {
	out := map[string]map[[16]byte]bool{}
	add := func(name string, h [16]byte) {
		if out[name] == nil {
			out[name] = map[[16]byte]bool{}
		}
		out[name][h] = true
	}
	if j.fmt == "par2" {
		b, _ := os.ReadFile(j.idx)
		pks := par2rw.ParseLenient(b)
		// Only the files of the recovery set are protected: the first NRecovery
		// IDs of the main packet the index itself carries (a mutated count
		// legitimately moves files to the unprotected non-recovery set).
		var recSet map[[16]byte]bool
		for _, p := range pks {
			if p.Type == par2rw.TypeMain {
				if m, err := par2rw.DecodeMain(p.Body); err == nil && int(m.NRecovery) <= len(m.IDs) {
					recSet = map[[16]byte]bool{}
					for _, id := range m.IDs[:m.NRecovery] {
						recSet[id] = true
					}
				}
				break
			}
		}
		for _, p := range pks {
			if p.Type == par2rw.TypeFileDesc {
				if d, err := par2rw.DecodeFileDesc(p.Body); err == nil {
					if recSet != nil && !recSet[d.ID] {
						continue
					}
					add(filepath.Clean(filepath.Join(j.dir, filepath.FromSlash(d.Name()))), d.Hash)
				}
			}
		}
	} else {
		b, _ := os.ReadFile(j.idx)
		if v, _ := par1rw.Parse(b); v != nil {
			for _, e := range v.Entries {
				add(filepath.Clean(filepath.Join(j.dir, e.Name)), e.Hash)
			}
		}
	}
	return out
}

func (j *c19Judge) run(r *core.R, what string) {
	tag := ""
	if j.big {
		tag = " [declared-size-above-cap]"
	}
	core.Note("C19 %s %s%s", j.fmt, what, tag)
	decl := j.declared()
	before := scen.Snapshot(j.root)
	var ms0, ms1 runtime.MemStats
	runtime.ReadMemStats(&ms0)
	clean := false
	var pi *core.PanicInfo
	var verr error
	if j.fmt == "par2" {
		var vr par2.VerifyResult
		pi = core.Protect(func() { vr, verr = par2.Verify(j.idx, par2.VerifyOptions{NumGoroutines: 2}) })
		clean = pi == nil && verr == nil && !vr.ShardCounts.RepairNeeded()
	} else {
		var vr par1.VerifyResult
		pi = core.Protect(func() { vr, verr = par1.Verify(j.idx, par1.VerifyOptions{VerifyAllData: true}) })
		clean = pi == nil && verr == nil && !vr.FileCounts.RepairNeeded()
		if pi == nil && verr == nil {
			// A necessary condition that needs no interpretation of header fields: a
			// parity volume that Verify counts as usable is at least a header plus
			// as many parity bytes as the longest data file present has.
			base := strings.TrimSuffix(j.idx, filepath.Ext(j.idx))
			longest := uint64(0)
			if ents, err := os.ReadDir(j.dir); err == nil {
				for _, de := range ents {
					if strings.HasPrefix(de.Name(), filepath.Base(base)+".p") {
						continue
					}
					if fi, err := de.Info(); err == nil && fi.Mode().IsRegular() && uint64(fi.Size()) > longest {
						if _, isDeclared := decl[filepath.Join(j.dir, de.Name())]; isDeclared {
							longest = uint64(fi.Size())
						}
					}
				}
			}
			good := 0
			for v := 1; v <= 99; v++ {
				if fi, err := os.Stat(fmt.Sprintf("%s.p%02d", base, v)); err == nil && uint64(fi.Size()) >= 96+longest && longest > 0 {
					good++
				} else if err == nil && longest == 0 {
					good++
				}
			}
			// ... and as many as the largest saved file the index itself declares
			// (when the index is a canonical PAR 1.0 file by the strict reader,
			// so that both readers look at the same entries)
			if ib, err := os.ReadFile(j.idx); err == nil {
				if iv, problems := par1rw.Parse(ib); iv != nil && len(problems) == 0 {
					maxDecl := uint64(0)
					for _, e := range iv.Entries {
						if e.Saved() && e.Size > maxDecl {
							maxDecl = e.Size
						}
					}
					fit := 0
					for v := 1; v <= 99; v++ {
						if fi, err := os.Stat(fmt.Sprintf("%s.p%02d", base, v)); err == nil && uint64(fi.Size()) >= 96+maxDecl && maxDecl < 1<<62 {
							fit++
						}
					}
					if vr.FileCounts.UsableParityFileCount > fit {
						r.Violate("usable-volumes-exceed-declared-size", "%s: Verify counts %d usable parity volumes; only %d volume files are large enough to hold parity data for the largest saved file the index declares (%d bytes)", what, vr.FileCounts.UsableParityFileCount, fit, maxDecl)
					}
				}
			}
			if vr.FileCounts.UsableParityFileCount > good {
				r.Violate("usable-volumes-exceed-intact", "%s: Verify counts %d usable parity volumes; only %d volume files are large enough to hold parity data for the longest data file present (%d bytes)", what, vr.FileCounts.UsableParityFileCount, good, longest)
			}
		}
	}
	if pi != nil {
		r.Violate(core.CrashSig(j.fmt+".Verify", pi.Frame, pi.Msg), "%s: Verify panicked: %s\n%s", what, pi.Msg, trunc2(pi.Stack, 1000))
	}
	if clean {
		r.Count("verify_clean", 1)
		for path, hashes := range decl {
			b, err := os.ReadFile(path)
			if err != nil || !hashes[md5.Sum(b)] {
				// only files in the recovery set matter; PAR1 non-saved entries are exempt
				if j.fmt == "par2" {
					r.Violate("verify-clean-but-declared-file-wrong", "%s: RepairNeeded()==false but %s does not have the MD5 the archive declares (err=%v)", what, filepath.Base(path), err)
				}
			}
		}
	}
	var rerr error
	if j.fmt == "par2" {
		pi = core.Protect(func() { _, rerr = par2.Repair(j.idx, par2.RepairOptions{NumGoroutines: 2}) })
	} else {
		pi = core.Protect(func() { _, rerr = par1.Repair(j.idx, par1.RepairOptions{}) })
	}
	if pi != nil {
		r.Violate(core.CrashSig(j.fmt+".Repair", pi.Frame, pi.Msg), "%s: Repair panicked: %s\n%s", what, pi.Msg, trunc2(pi.Stack, 1000))
	}
	if rerr == nil && pi == nil {
		r.Count("repair_ok", 1)
	} else {
		r.Count("repair_rejected", 1)
	}
	runtime.ReadMemStats(&ms1)
	if !j.big && ms1.Sys > ms0.Sys && ms1.Sys-ms0.Sys > 512<<20 {
		r.Violate("memory-out-of-proportion", "%s: runtime.MemStats.Sys grew by %d MiB while handling a set of < 1 MiB with declared slice size <= 64 KiB", what, (ms1.Sys-ms0.Sys)>>20)
	}
	for _, d := range scen.DiffSnap(before, scen.Snapshot(j.root)) {
		parts := strings.SplitN(d, " ", 2)
		abs := filepath.Clean(filepath.Join(j.root, parts[1]))
		if parts[0] == "created" && isDirPath(abs) {
			if !strings.HasPrefix(abs, j.dir) {
				r.Violate("repair-created-directory-outside", "%s: %s", what, d)
			}
			continue
		}
		hashes, ok := decl[abs]
		if !ok {
			r.Violate("repair-touched-undeclared-path", "%s: %s is not a file the archive declares", what, d)
			continue
		}
		b, err := os.ReadFile(abs)
		if err != nil || !hashes[md5.Sum(b)] {
			r.Violate("repair-wrote-data-failing-declared-hash", "%s: %s: its MD5 is not the hash the archive declares for it (err=%v, %d bytes)", what, d, err, len(b))
		}
	}
	r.Count("archives_judged", 1)
}

func isDirPath(p string) bool {
	st, err := os.Stat(p)
	return err == nil && st.IsDir()
}

// runFixedAbsurdSlice is the pinned witness of finding L: a set whose
// files all fit in one slice, re-emitted with slice size 2^62 and every
// ID re-derived, so that only semantic validation could object.
func (c *c19) runFixedAbsurdSlice(r *core.R) {
	root, err := os.MkdirTemp("", "c19L-")
	if err != nil {
		r.Inconclusive("tempdir: %v", err)
		return
	}
	defer os.RemoveAll(root)
	dir := filepath.Join(root, "set")
	os.MkdirAll(dir, 0755)
	in := []par2rw.InFile{{Name: "one.bin", Data: []byte("single slice file one")}, {Name: "two.bin", Data: []byte("second")}}
	for _, f := range in {
		os.WriteFile(filepath.Join(dir, f.Name), f.Data, 0644)
	}
	for _, size := range []uint64{1 << 62, 1<<63 - 4, 1 << 50} {
		rs := par2rw.BuildSet(64, in)
		// declare the absurd slice size consistently: checksums stay those of
		// the 64-byte padded slices (they cannot be recomputed for 2^62 bytes),
		// IDs and set ID are re-derived.
		rs.Main.SliceSize = size
		rs.SetID = md5.Sum(rs.Main.Body())
		pk := append([]par2rw.Packet{rs.CreatorPacket("ref")}, rs.Critical()...)
		idx := filepath.Join(dir, "arch.par2")
		os.WriteFile(idx, par2rw.Serialize(pk), 0644)
		j := &c19Judge{fmt: "par2", dir: dir, idx: idx, root: root, big: true}
		j.run(r, fmt.Sprintf("main packet slice size %d, consistent IDs, two single-slice files", size))
		r.Key("fixed-absurd-slice|%d", size)
	}
	r.Sample(map[string]interface{}{"family": "fixed-absurd-slice-size", "sizes": []string{"2^62", "2^63-4", "2^50"}})
}

// runFixedIllegalSlices: whole sets written by the reference writer for slice
// sizes the format does not allow (1, 2, 3, 5, 6, 10, 18): every checksum
// list, length and ID is consistent WITH that size, so nothing but the rule
// "a positive multiple of 4" can object. Data intact, one file missing, one
// file altered; index alone.
func (c *c19) runFixedIllegalSlices(r *core.R) {
	for _, size := range []int{1, 2, 3, 5, 6, 10, 18} {
		for _, state := range []string{"intact", "one-missing", "one-altered"} {
			root, err := os.MkdirTemp("", "c19ill-")
			if err != nil {
				r.Inconclusive("tempdir: %v", err)
				return
			}
			dir := filepath.Join(root, "set")
			os.MkdirAll(dir, 0755)
			in := []par2rw.InFile{{Name: "one.bin", Data: []byte("the first of two small files")}, {Name: "two.bin", Data: []byte("second!")}}
			for _, f := range in {
				os.WriteFile(filepath.Join(dir, f.Name), f.Data, 0644)
			}
			rs := par2rw.BuildSet(size, in)
			pk := append([]par2rw.Packet{rs.CreatorPacket("ref")}, rs.Critical()...)
			idx := filepath.Join(dir, "arch.par2")
			os.WriteFile(idx, par2rw.Serialize(pk), 0644)
			switch state {
			case "one-missing":
				os.Remove(filepath.Join(dir, "two.bin"))
			case "one-altered":
				os.WriteFile(filepath.Join(dir, "one.bin"), []byte("the first of two small filez"), 0644)
			}
			j := &c19Judge{fmt: "par2", dir: dir, idx: idx, root: root}
			j.run(r, fmt.Sprintf("set written consistently for the illegal slice size %d [%s, no recovery file present]", size, state))
			r.Key("fixed-illegal-slice|%d|%s", size, state)
			os.RemoveAll(root)
		}
	}
	r.Sample(map[string]interface{}{"family": "fixed-illegal-slice-sizes", "sizes": "1,2,3,5,6,10,18"})
}

// runFixedAllEmpty: a conformant-looking set in which every protected file
// is empty (length 0, no slice checksums) and a recovery file with one
// well-formed recovery packet: there is nothing to code over.
func (c *c19) runFixedAllEmpty(r *core.R) {
	for _, nf := range []int{1, 2, 3} {
		for _, state := range []string{"present", "first-deleted", "first-has-content"} {
			root, err := os.MkdirTemp("", "c19E-")
			if err != nil {
				r.Inconclusive("tempdir: %v", err)
				return
			}
			dir := filepath.Join(root, "set")
			os.MkdirAll(dir, 0755)
			var in []par2rw.InFile
			for i := 0; i < nf; i++ {
				in = append(in, par2rw.InFile{Name: fmt.Sprintf("empty%d.bin", i), Data: []byte{}})
				os.WriteFile(filepath.Join(dir, in[i].Name), nil, 0644)
			}
			switch state {
			case "first-deleted":
				os.Remove(filepath.Join(dir, in[0].Name))
			case "first-has-content":
				os.WriteFile(filepath.Join(dir, in[0].Name), []byte("no longer empty"), 0644)
			}
			rs := par2rw.BuildSet(64, in)
			idx := filepath.Join(dir, "arch.par2")
			os.WriteFile(idx, par2rw.Serialize(append([]par2rw.Packet{rs.CreatorPacket("ref")}, rs.Critical()...)), 0644)
			for e := 0; e < 2; e++ {
				rv := par2rw.Packet{SetID: rs.SetID, Type: par2rw.TypeRecv, Body: par2rw.Recv{Exp: uint32(e), Data: make([]byte, 64)}.Body()}
				os.WriteFile(filepath.Join(dir, fmt.Sprintf("arch.vol%02d+01.par2", e)), par2rw.Serialize(append(append([]par2rw.Packet{}, rs.Critical()...), rv, rs.CreatorPacket("ref"))), 0644)
			}
			j := &c19Judge{fmt: "par2", dir: dir, idx: idx, root: root}
			j.run(r, fmt.Sprintf("%d protected files, all of length 0 with empty checksum packets, two recovery blocks; %s", nf, state))
			r.Key("fixed-all-empty|%d|%s", nf, state)
			os.RemoveAll(root)
		}
	}
	r.Sample(map[string]interface{}{"family": "fixed-all-files-empty", "file_counts": []int{1, 2, 3}})
}

// runFixedPar1Counts: PAR1 indexes whose number of entries saved in the
// parity set sits at and around the limit of GF(2^8) (255 data shards and at
// least one parity shard: 256 in all), with valid control hashes.
func (c *c19) runFixedPar1Counts(r *core.R) {
	rng := rand.New(rand.NewSource(19))
	for _, n := range []int{254, 255, 256, 257, 300} {
		for _, extra := range []int{0, 2} {
			for _, state := range []string{"present", "one-deleted"} {
				root, err := os.MkdirTemp("", "c19N-")
				if err != nil {
					r.Inconclusive("tempdir: %v", err)
					return
				}
				dir := filepath.Join(root, "set")
				os.MkdirAll(dir, 0755)
				var in []par1rw.InFile
				for i := 0; i < n+extra; i++ {
					f := par1rw.InFile{Name: fmt.Sprintf("n%03d.bin", i), Data: scen.GenData(rng, "random", 1+rng.Intn(12), 16), Saved: i >= extra}
					in = append(in, f)
					os.WriteFile(filepath.Join(dir, f.Name), f.Data, 0644)
				}
				if state == "one-deleted" {
					os.Remove(filepath.Join(dir, in[extra+n/2].Name))
				}
				idx := filepath.Join(dir, "arch.par")
				os.WriteFile(idx, par1rw.Build(in, 0, nil, 0x00010000), 0644)
				for v := 1; v <= 2; v++ {
					os.WriteFile(filepath.Join(dir, fmt.Sprintf("arch.p%02d", v)), par1rw.Build(in, v, par1rw.Parity(in, v), 0x00010000), 0644)
				}
				j := &c19Judge{fmt: "par1", dir: dir, idx: idx, root: root}
				j.run(r, fmt.Sprintf("PAR1 index with %d entries saved in the parity set (+%d not saved), two volumes; %s", n, extra, state))
				r.Key("fixed-par1-counts|%d|%d|%s", n, extra, state)
				os.RemoveAll(root)
			}
		}
	}
	r.Sample(map[string]interface{}{"family": "fixed-par1-saved-counts", "saved_counts": []int{254, 255, 256, 257, 300}})
}

func (c *c19) Run(cs core.Case) core.Result {
	var p c19Params
	core.Decode(cs, &p)
	r := core.NewR(cs)
	if p.Family == "fixed-par1-saved-counts" {
		c.runFixedPar1Counts(r)
		return r.Done()
	}
	if p.Family == "fixed-all-files-empty" {
		c.runFixedAllEmpty(r)
		return r.Done()
	}
	if p.Family == "fixed-absurd-slice-size" {
		c.runFixedAbsurdSlice(r)
		return r.Done()
	}
	if p.Family == "fixed-illegal-slice-sizes" {
		c.runFixedIllegalSlices(r)
		return r.Done()
	}
	h, err := newHostileEnv(p.Fmt, p.Seed)
	if h != nil {
		defer h.close()
	}
	if err != nil {
		r.Violate("create-failed", "%v", err)
		return r.Done()
	}
	rng := rand.New(rand.NewSource(p.Seed ^ int64(p.Part)<<8 ^ int64(len(p.Family)+len(p.Damage))))
	// data-file state
	var dataNames []string
	for n := range h.data {
		dataNames = append(dataNames, n)
	}
	sort.Strings(dataNames)
	applyDamage := func() {
		switch p.Damage {
		case "one-missing":
			os.Remove(filepath.Join(h.dir, dataNames[0]))
		case "one-corrupt":
			b := append([]byte(nil), h.data[dataNames[len(dataNames)-1]]...)
			if len(b) == 0 {
				b = []byte{0x21}
			} else {
				b[len(b)/3] ^= 0x21
			}
			os.WriteFile(filepath.Join(h.dir, dataNames[len(dataNames)-1]), b, 0644)
		}
	}
	j := &c19Judge{fmt: p.Fmt, dir: h.dir, idx: h.idx, root: h.root}
	n := 0
	if p.Fmt == "par2" {
		a := &p2Archive{files: map[string][]par2rw.Packet{}}
		a.names = append(a.names, "arch.par2")
		for _, nme := range h.names {
			if strings.HasPrefix(nme, "arch.") && strings.HasSuffix(nme, ".par2") && nme != "arch.par2" {
				a.names = append(a.names, nme)
			}
		}
		for _, nme := range a.names {
			pk, err := par2rw.ParseStrict(h.pristine[nme])
			if err != nil {
				r.Violate("created-archive-not-parseable", "%s: %v", nme, err)
				return r.Done()
			}
			a.files[nme] = pk
		}
		fam := p.Family
		var muts []p2Mutation
		if fam == "fields-bare-volumes" {
			// a layout the format allows (volumes carrying only creator and
			// recovery packets) combined with every field mutation of those volumes
			bare := func(f map[string][]par2rw.Packet) {
				for _, nme := range a.names[1:] {
					var out []par2rw.Packet
					for _, q := range f[nme] {
						if q.Type == par2rw.TypeCreator || q.Type == par2rw.TypeRecv {
							out = append(out, q)
						}
					}
					f[nme] = out
				}
			}
			b := &p2Archive{files: cloneArchive(a.files), names: a.names}
			bare(b.files)
			for _, m := range p2Mutations(b, "fields", h.set.SliceSize, rng) {
				m := m
				if strings.HasPrefix(m.desc, "arch.par2#") {
					continue
				}
				muts = append(muts, p2Mutation{desc: "volumes without main/description/checksum packets AND " + m.desc, big: m.big, apply: func(f map[string][]par2rw.Packet) {
					bare(f)
					m.apply(f)
				}})
			}
			muts = append(muts, p2Mutation{desc: "volumes without main/description/checksum packets", apply: bare})
		} else if fam == "pairs" {
			all := append(p2Mutations(a, "fields", h.set.SliceSize, rng), p2Mutations(a, "structure", h.set.SliceSize, rng)...)
			for i := 0; i < 60*p.Parts; i++ {
				x, y := all[rng.Intn(len(all))], all[rng.Intn(len(all))]
				muts = append(muts, p2Mutation{desc: x.desc + " AND " + y.desc, big: x.big || y.big, apply: func(f map[string][]par2rw.Packet) {
					x.apply(f)
					core.Protect(func() { y.apply(f) }) // the second may no longer apply
				}})
			}
		} else {
			muts = p2Mutations(a, fam, h.set.SliceSize, rng)
		}
		for mi, m := range muts {
			if mi%p.Parts != p.Part || !core.Sub(mi) {
				continue
			}
			h.restore()
			f := cloneArchive(a.files)
			if pi := core.Protect(func() { m.apply(f) }); pi != nil {
				continue
			}
			if m.rederive {
				rederiveArchive(f, h.setID)
			}
			for _, nme := range a.names {
				os.WriteFile(filepath.Join(h.dir, nme), par2rw.Serialize(f[nme]), 0644)
			}
			applyDamage()
			j.big = m.big
			alone := ""
			if mi%3 == 2 && strings.HasPrefix(m.desc, "arch.par2#") {
				// the mutated index stands alone: no recovery file (with its own
				// unmutated copies of the packets) beside it
				for _, nme := range a.names[1:] {
					os.Remove(filepath.Join(h.dir, nme))
				}
				alone = ", no recovery file present"
			}
			j.run(r, m.desc+" ["+p.Damage+alone+"]")
			r.Key("par2|%s|%s|%s", fam, m.desc, p.Damage)
			n++
		}
	} else {
		n = c.runPar1(r, h, j, p, rng, applyDamage)
	}
	r.Sample(map[string]interface{}{"format": p.Fmt, "family": p.Family, "data_state": p.Damage, "part": fmt.Sprintf("%d/%d", p.Part, p.Parts), "mutations_run": n})
	return r.Done()
}

// PAR1: mutations operate on the raw bytes with known field offsets.
type p1Mutation struct {
	desc  string
	big   bool
	solo  bool // every other parity volume is removed
	apply func(b []byte) []byte
}

func p1Mutations(b []byte, rederive bool) []p1Mutation {
	var ms []p1Mutation
	put64 := func(off int, name string, vals []uint64, bigOver uint64) {
		cur := binary.LittleEndian.Uint64(b[off:])
		for _, v := range vals {
			v := v
			ms = append(ms, p1Mutation{desc: fmt.Sprintf("%s @%#x %d -> %d", name, off, cur, v), big: bigOver > 0 && v > bigOver, apply: func(x []byte) []byte {
				binary.LittleEndian.PutUint64(x[off:], v)
				return x
			}})
		}
	}
	rem := uint64(len(b))
	hdr := []struct {
		off  int
		name string
	}{{0x08, "version"}, {0x30, "volume number"}, {0x38, "file count"}, {0x40, "file list offset"}, {0x48, "file list size"}, {0x50, "data offset"}, {0x58, "data size"}}
	for _, f := range hdr {
		cur := binary.LittleEndian.Uint64(b[f.off:])
		extra := []uint64{rem, rem - 1, rem + 1, 99, 100, 255, 256, 257, 0x00010000, 0x00020000, 0x0001000000010000}
		put64(f.off, f.name, boundary64(cur, extra...), 0)
	}
	n := int(binary.LittleEndian.Uint64(b[0x38:]))
	off := 0x60
	for i := 0; i < n && off+56 <= len(b); i++ {
		el := int(binary.LittleEndian.Uint64(b[off:]))
		cur := binary.LittleEndian.Uint64(b[off+16:])
		put64(off, fmt.Sprintf("entry %d size", i), boundary64(uint64(el), 55, 56, 57, 58, 59, uint64(len(b)-off), uint64(len(b)-off)+1, uint64(len(b)-off)-1), 0)
		put64(off+8, fmt.Sprintf("entry %d status", i), []uint64{0, 1, 2, 3, 4, 0xff, 1 << 63, ^uint64(0)}, 0)
		put64(off+16, fmt.Sprintf("entry %d file size", i), boundary64(cur, cur+100, 16384, 16385, 500, 501, 1000), 1<<20)
		o := off
		ms = append(ms, p1Mutation{desc: fmt.Sprintf("entry %d MD5 wrong", i), apply: func(x []byte) []byte { x[o+24] ^= 1; return x }})
		ms = append(ms, p1Mutation{desc: fmt.Sprintf("entry %d 16k MD5 wrong", i), apply: func(x []byte) []byte { x[o+40] ^= 1; return x }})
		if el < 58 || off+el > len(b) {
			break
		}
		off += el
	}
	ms = append(ms, p1Mutation{desc: "set hash wrong", apply: func(x []byte) []byte { x[0x20] ^= 1; return x }})
	ms = append(ms, p1Mutation{desc: "one parity/comment byte appended", apply: func(x []byte) []byte { return append(x, 0x77) }})
	ms = append(ms, p1Mutation{desc: "last byte dropped", apply: func(x []byte) []byte { return x[:len(x)-1] }})
	if binary.LittleEndian.Uint64(b[0x30:]) != 0 {
		// a parity volume whose recovery data is consistently shorter (data
		// size field adjusted), standing alone beside the index: volumes
		// that belong to shorter revisions of the files
		ds := binary.LittleEndian.Uint64(b[0x58:])
		for _, nl := range []uint64{0, 1, 2, ds / 2, ds - 2, ds - 1} {
			if nl >= ds {
				continue
			}
			nl := nl
			ms = append(ms, p1Mutation{desc: fmt.Sprintf("recovery data cut to %d of %d bytes, size field adjusted", nl, ds), solo: true, apply: func(x []byte) []byte {
				do := binary.LittleEndian.Uint64(x[0x50:])
				if do+nl > uint64(len(x)) {
					return x
				}
				binary.LittleEndian.PutUint64(x[0x58:], nl)
				return x[:do+nl]
			}})
		}
	}
	// pairs of data offset and data size whose sum wraps around 2^64 to the
	// file size (or to the real end of the data)
	{
		flen := uint64(len(b))
		for _, off := range []uint64{^uint64(0), ^uint64(0) - 7, 1<<63 + 8, ^uint64(0) - flen + 1, 1 << 63} {
			off := off
			ms = append(ms, p1Mutation{desc: fmt.Sprintf("data offset -> %d AND data size -> file size minus that (sum wraps to the file size)", off), apply: func(x []byte) []byte {
				binary.LittleEndian.PutUint64(x[0x50:], off)
				binary.LittleEndian.PutUint64(x[0x58:], uint64(len(x))-off)
				return x
			}})
		}
	}
	ms = append(ms, p1Mutation{desc: "data area dropped", apply: func(x []byte) []byte {
		do := int(binary.LittleEndian.Uint64(x[0x50:]))
		if do <= len(x) && do >= 0x60 {
			return x[:do]
		}
		return x
	}})
	return ms
}

func (c *c19) runPar1(r *core.R, h *hostileEnv, j *c19Judge, p c19Params, rng *rand.Rand, applyDamage func()) int {
	var arch []string
	for _, n := range h.names {
		if _, isData := h.data[n]; !isData {
			arch = append(arch, n)
		}
	}
	type tm struct {
		file string
		m    p1Mutation
	}
	var all []tm
	for _, fn := range arch {
		for _, m := range p1Mutations(h.pristine[fn], p.Family == "fields-rederive") {
			all = append(all, tm{fn, m})
		}
	}
	if p.Family == "pairs" {
		var pairs []tm
		for i := 0; i < 150*p.Parts; i++ {
			x, y := all[rng.Intn(len(all))], all[rng.Intn(len(all))]
			if x.file != y.file {
				continue
			}
			pairs = append(pairs, tm{x.file, p1Mutation{desc: x.m.desc + " AND " + y.m.desc, big: x.m.big || y.m.big, apply: func(b []byte) []byte { return y.m.apply(x.m.apply(b)) }}})
		}
		// and, systematically, every pair of header fields set to huge values
		// that are consistent with each other (a size that covers a count)
		hdrOffs := []int{0x38, 0x40, 0x48, 0x50, 0x58}
		huge := []uint64{1 << 40, 58 << 40, 1 << 50, 58 << 50, 1 << 62}
		for _, fn := range arch {
			for a := 0; a < len(hdrOffs); a++ {
				for b2 := a + 1; b2 < len(hdrOffs); b2++ {
					for _, va := range huge {
						for _, vb := range huge {
							oa, ob, va, vb := hdrOffs[a], hdrOffs[b2], va, vb
							pairs = append(pairs, tm{fn, p1Mutation{desc: fmt.Sprintf("header @%#x -> %d AND header @%#x -> %d", oa, va, ob, vb), apply: func(x []byte) []byte {
								binary.LittleEndian.PutUint64(x[oa:], va)
								binary.LittleEndian.PutUint64(x[ob:], vb)
								return x
							}}})
						}
					}
				}
			}
		}
		all = pairs
	}
	n := 0
	for mi, t := range all {
		if mi%p.Parts != p.Part || !core.Sub(mi) {
			continue
		}
		h.restore()
		b := append([]byte(nil), h.pristine[t.file]...)
		var out []byte
		if pi := core.Protect(func() { out = t.m.apply(b) }); pi != nil {
			continue
		}
		if p.Family == "fields-rederive" {
			// keep the set hash consistent with the (possibly changed) entry hashes
			if v, _ := par1rw.Parse(out); v != nil {
				var in []byte
				for _, e := range v.Entries {
					if e.Saved() {
						in = append(in, e.Hash[:]...)
					}
				}
				sh := md5.Sum(in)
				if !strings.Contains(t.m.desc, "set hash") {
					copy(out[0x20:], sh[:])
				}
			}
		}
		par1rw.Rehash(out)
		os.WriteFile(filepath.Join(h.dir, t.file), out, 0644)
		applyDamage()
		j.big = t.m.big
		alone := ""
		if t.m.solo {
			for _, fn := range arch {
				if fn != t.file && !strings.HasSuffix(fn, ".par") {
					os.Remove(filepath.Join(h.dir, fn))
				}
			}
			alone = ", the only parity volume present"
		} else if mi%3 == 2 && strings.HasSuffix(t.file, ".par") {
			// the mutated index stands alone: no parity volume beside it
			for _, fn := range arch {
				if fn != t.file {
					os.Remove(filepath.Join(h.dir, fn))
				}
			}
			alone = ", no parity volume present"
		}
		j.run(r, t.file+": "+t.m.desc+" ["+p.Damage+alone+"]")
		r.Key("par1|%s|%s|%s|%s", p.Family, t.file, t.m.desc, p.Damage)
		n++
	}
	return n
}
