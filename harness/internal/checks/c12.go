package checks

import (
	"bytes"
	"fmt"
	"math/rand"
	"os"
	"path/filepath"
	"runtime"
	"sort"
	"strings"
	"sync"
	"sync/atomic"
	"time"
	"verifharness/internal/ref/par2rw"

	"github.com/akalin/gopar/gf2p16"
	"github.com/akalin/gopar/par2"
	"github.com/akalin/gopar/rsec16"
	"github.com/klauspost/cpuid/v2"

	"verifharness/internal/core"
	"verifharness/internal/ref/gf16"
	"verifharness/internal/scen"
)

// C12 — results independent of goroutine count and scheduling; no races.

type c12 struct{ base }

type c12Params struct {
	Mode    string `json:"mode"` // coder | create | cores
	Lens    []int  `json:"lens,omitempty"`
	Workers []int  `json:"workers,omitempty"`
	Procs   int    `json:"procs,omitempty"`
	Seed    int64  `json:"seed"`
	Repeats int    `json:"repeats,omitempty"`
	// D is the number of data shards (default 3).
	D        int  `json:"d,omitempty"`
	RaceMode bool `json:"race_mode,omitempty"`
	// Dup: "yes" forces files that share leading slices (and at least three
	// files, so two scanners meet on the same bookkeeping), "" draws it.
	Dup string `json:"dup,omitempty"`
	// Bogus: the recovery block with the highest exponent (not needed for the
	// repair) gets a wrong payload under a valid packet hash, and every
	// Repair runs with the double check on: it has to fail the same way for
	// every goroutine option.
	Bogus bool `json:"bogus,omitempty"`
	// Conflict: a second, larger recovery file (sorting before the real ones)
	// stores block 0 again with a different payload under a valid hash. Which
	// of the two copies is used must not depend on the goroutine option.
	Conflict bool `json:"conflict,omitempty"`
	// BigFiles: inputs of 17-40 KiB (anything done per file in parallel for
	// large files only).
	BigFiles bool `json:"big_files,omitempty"`
	// FlipVolume alters one byte of the first recovery file before Repair.
	FlipVolume bool `json:"flip_volume,omitempty"`
	// HugeG uses goroutine options of 2^16 and beyond.
	HugeG bool `json:"huge_g,omitempty"`
	// Missing is the number of data shards removed before reconstruction in
	// coder mode (default 2); the coder gets Missing+2 parity shards.
	Missing int `json:"missing,omitempty"`
}

func init() {
	register(&c12{base{
		id:          "C12",
		level:       lvlExploration,
		rule:        "coder mode: for each (shard length, goroutine count, GOMAXPROCS) GenerateParity and ReconstructData (both coders) run with seeded yields/spins/sleeps injected at worker start, slice entry and before every kernel call; bytes are compared with the single-goroutine result, the partition and the worker start/finish ordering actually executed are recorded through the worker hook (observations: a partition that differs from the documented split is counted, not judged); the same workload runs again in the -race build, where a hook announces the assembly kernels' loads/stores to the race detector, and every report in the race log is a violation; create mode: par2.Create and Repair results across goroutine options; cores mode: default goroutine count when the physical core count is unknown. A key is (mode, len, workers, GOMAXPROCS, race-build?); observed_sets.orderings lists the distinct worker start/finish orderings actually seen. Forced shapes: three or more files sharing leading slices (also in the race build); the recovery block with the highest exponent spoiled under a valid hash while every Repair runs with the double check (the outcome must not depend on g). Further forced shapes: a larger, earlier-sorting file storing block 0 again with another payload (the outcome must not depend on g); inputs of 17-40 KiB (also in the race build).. Mode sparse: constructed PAR2-Vandermonde geometries whose reconstruction matrix contains zero coefficients, shards of 64-2000 bytes, g in {1,2,3,8,16}.. A worker process that stops consuming CPU while a case is open (deadlock, lost wake-up) is reported by the driver's blocked-process monitor as non-termination|blocked.. Cases coder-many-missing (100 data shards, 65-72 missing), plain and race build. Goroutine options 255..65535, 65536, 65537, 2^17, 2^20, 2^31-1 (coder and create/repair); create cases with one byte of the first recovery file altered before Repair (plain and race build).",
		assumptions: append([]string{"the race detector sees Go code directly and the assembly kernels through the RaceReadRange/RaceWriteRange annotation hook (gf2p16/verif_note_race.go), executed by the goroutine that runs the kernel", "interleavings are those the Go scheduler produced under injected delays on this 16-core machine; they are counted, not enumerated"}, commonAssumptions...),
		opts:        core.WorkerOpts{CrashIsViolation: true, WallSeconds: 2400, HandlesRaceLog: true},
	}})
}

func (c *c12) Cases(tier string, seed int64) []core.Case {
	var cs []core.Case
	r := core.Rng("C12", tier, seed)
	var lens []int
	step := 2
	for l := 2; l <= 600; l += step {
		lens = append(lens, l)
	}
	lens = append(lens, 1024, 2000, 4096, 65538)
	workers := []int{1, 2, 3, 4, 5, 6, 7, 8, 9, 10, 11, 12, 13, 15, 16, 17, 20, 24, 31, 32, 33, 40, 64, 128, 1000}
	procs := []int{1, 2, 3, 8, 16}
	rep := 1
	if tier == "thorough" {
		workers = nil
		for w := 1; w <= 40; w++ {
			workers = append(workers, w)
		}
		workers = append(workers, 64, 128, 1000)
		rep = 3
	}
	// plain build: all lens x workers, lens split into chunks, per GOMAXPROCS
	chunk := 38
	for _, pr := range procs {
		for i := 0; i < len(lens); i += chunk {
			j := i + chunk
			if j > len(lens) {
				j = len(lens)
			}
			cs = append(cs, core.MkCase(fmt.Sprintf("coder-procs%d-len%d..%d", pr, lens[i], lens[j-1]), c12Params{Mode: "coder", Lens: lens[i:j], Workers: workers, Procs: pr, Seed: r.Int63(), Repeats: rep}))
		}
	}
	// race build: reduced grid
	var rlens []int
	for l := 2; l <= 200; l += 2 {
		rlens = append(rlens, l)
	}
	rlens = append(rlens, 256, 330, 1024, 2000, 2004, 4100, 65538)
	rworkers := []int{2, 3, 4, 5, 7, 8, 12, 16, 33, 64}
	rchunk := (len(rlens) + 2) / 3
	for _, pr := range []int{1, 2, 4, 16} {
		for i := 0; i < len(rlens); i += rchunk {
			j := i + rchunk
			if j > len(rlens) {
				j = len(rlens)
			}
			cse := core.MkCase(fmt.Sprintf("race-coder-procs%d-len%d..%d", pr, rlens[i], rlens[j-1]), c12Params{Mode: "coder", Lens: rlens[i:j], Workers: rworkers, Procs: pr, Seed: r.Int63(), Repeats: rep, RaceMode: true})
			cse.Race = true
			cs = append(cs, cse)
		}
	}
	// many short data shards (a different way to divide the work may apply there)
	for _, pr := range []int{2, 4, 16} {
		cs = append(cs, core.MkCase(fmt.Sprintf("coder-many-shards-procs%d", pr), c12Params{Mode: "coder", D: 130 + 17*pr, Lens: []int{2, 6, 16, 18, 30, 34, 48, 62, 100, 130}, Workers: []int{2, 3, 8, 16, 64}, Procs: pr, Seed: r.Int63(), Repeats: map[string]int{"quick": 6, "thorough": 80}[tier]}))
	}
	// dozens of shards missing at once (a large system to solve before the
	// data is touched), plain and race build
	for _, pr := range []int{2, 16} {
		cs = append(cs, core.MkCase(fmt.Sprintf("coder-many-missing-procs%d", pr), c12Params{Mode: "coder", D: 100, Missing: 64 + pr/2, Lens: []int{16, 130}, Workers: []int{2, 8}, Procs: pr, Seed: r.Int63(), Repeats: map[string]int{"quick": 2, "thorough": 30}[tier]}))
	}
	{
		cse := core.MkCase("race-coder-many-missing", c12Params{Mode: "coder", D: 100, Missing: 66, Lens: []int{16}, Workers: []int{2, 8}, Procs: 8, Seed: r.Int63(), Repeats: 1, RaceMode: true})
		cse.Race = true
		cs = append(cs, cse)
	}
	{
		cse := core.MkCase("race-coder-many-shards", c12Params{Mode: "coder", D: 160, Lens: []int{2, 16, 18, 34, 62, 130}, Workers: []int{2, 8, 16, 64}, Procs: 8, Seed: r.Int63(), Repeats: 2, RaceMode: true})
		cse.Race = true
		cs = append(cs, cse)
	}
	// goroutine options far beyond any core count (2^16 and its neighbours,
	// 2^20, 2^31-1)
	cs = append(cs, core.MkCase("coder-huge-goroutine-options", c12Params{Mode: "coder", Lens: []int{2, 34, 130, 4096}, Workers: []int{255, 256, 257, 65535, 65536, 65537, 131072, 1 << 20, 1<<31 - 1}, Procs: 4, Seed: r.Int63(), Repeats: 1}))
	for _, pr := range []int{1, 4, 16} {
		cs = append(cs, core.MkCase(fmt.Sprintf("sparse-reconstruction-procs%d", pr), c12Params{Mode: "sparse", Procs: pr, Seed: r.Int63()}))
	}
	for i := 0; i < 4; i++ {
		cse := core.MkCase(fmt.Sprintf("race-create-%d", i), c12Params{Mode: "create", Seed: r.Int63(), RaceMode: true, Dup: map[bool]string{true: "yes"}[i%2 == 0], BigFiles: i == 1, FlipVolume: i == 3})
		cse.Race = true
		cs = append(cs, cse)
	}
	n := 12
	if tier == "thorough" {
		n = 60
	}
	for i := 0; i < n; i++ {
		cs = append(cs, core.MkCase(fmt.Sprintf("create-%d", i), c12Params{Mode: "create", Seed: r.Int63(), Dup: map[bool]string{true: "yes"}[i%4 == 0], Bogus: i%4 == 2, Conflict: i%4 == 3, BigFiles: i%6 == 1, FlipVolume: i%4 == 1, HugeG: i%3 == 0}))
	}
	cs = append(cs, core.MkCase("cores-unknown", c12Params{Mode: "cores", Seed: r.Int63()}))
	return cs
}

// ---- schedule perturbation and partition recording --------------------

type c12Recorder struct {
	mu       sync.Mutex
	slices   [][4]int // outStart,outEnd,dataStart,dataEnd
	order    []string
	starts   int
	workersN int
	seed     uint64
	callNo   uint64
	perturb  bool
	events   int64
}

var c12rec c12Recorder

func c12mix(a, b, c uint64) uint64 {
	x := a*0x9E3779B97F4A7C15 ^ b*0xBF58476D1CE4E5B9 ^ c*0x94D049BB133111EB
	x ^= x >> 31
	x *= 0xD6E8FEB86659FD93
	x ^= x >> 29
	return x
}

var c12spinSink uint64

func c12delay(h uint64) {
	switch h % 8 {
	case 0, 1:
		runtime.Gosched()
	case 2:
		n := int(h>>8) % 2000
		var s uint64
		for i := 0; i < n; i++ {
			s += uint64(i) ^ h
		}
		atomic.AddUint64(&c12spinSink, s)
	case 3:
		time.Sleep(time.Duration((h>>8)%50) * time.Microsecond)
	case 4:
		runtime.Gosched()
		runtime.Gosched()
	}
}

func c12WorkerHook(ev rsec16.VerifWorkerEvent) {
	rec := &c12rec
	atomic.AddInt64(&rec.events, 1)
	rec.mu.Lock()
	switch ev.Kind {
	case "slice":
		rec.slices = append(rec.slices, [4]int{ev.OutStart, ev.OutEnd, ev.DataStart, ev.DataEnd})
	case "start":
		rec.starts++
		rec.workersN = ev.Workers
		rec.order = append(rec.order, fmt.Sprintf("s%d", ev.Worker))
	case "end":
		rec.order = append(rec.order, fmt.Sprintf("e%d", ev.Worker))
	}
	pert := rec.perturb
	h := c12mix(rec.seed, rec.callNo, uint64(len(rec.order)+len(rec.slices))<<8|uint64(ev.Worker))
	rec.mu.Unlock()
	if pert {
		c12delay(h)
	}
}

var c12kernelCalls int64

func c12AccessHook(in, out []byte) {
	n := atomic.AddInt64(&c12kernelCalls, 1)
	if c12rec.perturb && n%3 == 0 {
		c12delay(c12mix(c12rec.seed, uint64(n), uint64(len(in))))
	}
}

func (rec *c12Recorder) begin(seed uint64) {
	rec.mu.Lock()
	rec.slices = rec.slices[:0]
	rec.order = rec.order[:0]
	rec.starts = 0
	rec.workersN = 0
	rec.callNo++
	rec.seed = seed
	rec.mu.Unlock()
}

// expectedPartition is my own derivation of the documented split: the
// per-worker length is ceil(len/g), at least 16, rounded up to a
// multiple of 16; the worker count is ceil(len/per); fewer than two
// means single-threaded.
func expectedPartition(l, g int) (per, n int) {
	per = (l + g - 1) / g
	if per < 16 {
		per = 16
	}
	if per%16 != 0 {
		per += 16 - per%16
	}
	n = (l + per - 1) / per
	return
}

// check records the partition and ordering that were executed. The shape of
// the partition is an implementation choice, not part of the property: it is
// reported as an observation (and as context when bytes differ), never as a
// verdict of its own.
func (rec *c12Recorder) check(r *core.R, what string, l, g, outRows int) {
	rec.mu.Lock()
	slices := append([][4]int(nil), rec.slices...)
	order := strings.Join(rec.order, " ")
	starts, wn := rec.starts, rec.workersN
	rec.mu.Unlock()
	per, n := expectedPartition(l, g)
	desc := fmt.Sprintf("%s len=%d g=%d", what, l, g)
	if n < 2 {
		if starts != 0 || len(slices) != 1 || slices[0] != [4]int{0, outRows, 0, l} {
			c12PartitionNote(r, "%s: expected one single-threaded pass over [0,%d), recorded starts=%d slices=%v", desc, l, starts, slices)
		}
		return
	}
	if starts != n || wn != n || len(slices) != n {
		c12PartitionNote(r, "%s: expected %d workers of %d bytes, recorded %d starts (Workers=%d), %d slice calls %v", desc, n, per, starts, wn, len(slices), slices)
		return
	}
	sort.Slice(slices, func(i, j int) bool { return slices[i][2] < slices[j][2] })
	pos := 0
	for i, s := range slices {
		if s[0] != 0 || s[1] != outRows {
			c12PartitionNote(r, "%s: worker covers output rows [%d,%d), expected [0,%d)", desc, s[0], s[1], outRows)
		}
		if s[2] != pos {
			c12PartitionNote(r, "%s: chunk %d starts at %d, previous ended at %d (chunks %v)", desc, i, s[2], pos, slices)
			return
		}
		if s[2]%16 != 0 || (i < len(slices)-1 && (s[3]-s[2]) != per) || s[3] <= s[2] {
			c12PartitionNote(r, "%s: chunk %d = [%d,%d) is not a %d-byte multiple-of-16 chunk (chunks %v)", desc, i, s[2], s[3], per, slices)
			return
		}
		pos = s[3]
	}
	if pos != l {
		c12PartitionNote(r, "%s: chunks end at %d, shard length %d (chunks %v)", desc, pos, l, slices)
	}
	r.SetAdd("partitions", fmt.Sprintf("len=%d,n=%d,per=%d", l, n, per))
	if len(order) < 200 {
		r.SetAdd("orderings", order)
	} else {
		r.SetAdd("orderings", fmt.Sprintf("%x", c12mix(uint64(len(order)), hashStr(order), 1)))
	}
}

func c12PartitionNote(r *core.R, format string, a ...interface{}) {
	r.Count("partition_differs_from_documented_split", 1)
	r.SetAdd("partition_anomalies", trunc2(fmt.Sprintf(format, a...), 200))
}

func hashStr(s string) uint64 {
	var h uint64 = 1469598103934665603
	for i := 0; i < len(s); i++ {
		h ^= uint64(s[i])
		h *= 1099511628211
	}
	return h
}

// raceReportsSince returns the race reports appended to this process's
// race log since offset.
func raceReportsSince(off int64) (int, string, int64) {
	p := core.RaceLogPath()
	if p == "" {
		return 0, "", off
	}
	b, err := os.ReadFile(p)
	if err != nil || int64(len(b)) <= off {
		return 0, "", off
	}
	s := string(b[off:])
	return strings.Count(s, "WARNING: DATA RACE"), s, int64(len(b))
}

func raceSig(report string) string {
	// Deduplicate by the gopar frames involved, line numbers stripped.
	var frames []string
	seen := map[string]bool{}
	for _, line := range strings.Split(report, "\n") {
		line = strings.TrimSpace(line)
		if strings.HasPrefix(line, "github.com/akalin/gopar/") {
			f := strings.TrimPrefix(line, "github.com/akalin/gopar/")
			if i := strings.Index(f, "("); i > 0 {
				f = f[:i]
			}
			if !seen[f] {
				seen[f] = true
				frames = append(frames, f)
			}
		}
		if len(frames) >= 4 {
			break
		}
	}
	return "data-race|" + strings.Join(frames, ",")
}

func (c *c12) Run(cs core.Case) core.Result {
	var p c12Params
	core.Decode(cs, &p)
	r := core.NewR(cs)
	raceOff := int64(0)
	if p.RaceMode {
		if core.RaceLogPath() == "" {
			r.Inconclusive("race-mode case executed outside the race build")
			return r.Done()
		}
		_, _, raceOff = raceReportsSince(0)
	}
	rsec16.VerifWorkerHook = c12WorkerHook
	gf2p16.VerifAccessRecorder = c12AccessHook
	defer func() {
		c12rec.perturb = false
	}()
	switch p.Mode {
	case "sparse":
		c.runSparse(r, p)
	case "coder":
		c.runCoder(r, p)
	case "create":
		c.runCreate(r, p)
	case "cores":
		c.runCores(r, p)
	}
	if p.RaceMode {
		n, rep, _ := raceReportsSince(raceOff)
		r.Count("race_log_checks", 1)
		if n > 0 {
			blocks := strings.Split(rep, "==================")
			for _, b := range blocks {
				if strings.Contains(b, "WARNING: DATA RACE") {
					r.Violate(raceSig(b), "race detector report (kernels annotated) in case %s:\n%s", cs.Name, b)
				}
			}
		}
	}
	r.Count("hook_events", atomic.SwapInt64(&c12rec.events, 0))
	r.Count("kernel_calls_observed", atomic.SwapInt64(&c12kernelCalls, 0))
	return r.Done()
}

// runSparse: PAR2-Vandermonde geometries whose reconstruction matrix contains
// zero coefficients. With recovery exponents 0 and e (e = 65535/q for a prime
// factor q of 65535) and a missing shard b, every available shard j whose
// constant satisfies (c_j/c_b)^e = 1 drops out of the other missing shard.
// The shards are long enough for several workers; every goroutine count must
// give the original bytes.
func (c *c12) runSparse(r *core.R, p c12Params) {
	old := runtime.GOMAXPROCS(p.Procs)
	defer runtime.GOMAXPROCS(old)
	rng := rand.New(rand.NewSource(p.Seed))
	// index of the k-th valid exponent n of the constants 2^n
	var ns []int
	for n := 0; n < 65535 && len(ns) < 400; n++ {
		if n%3 != 0 && n%5 != 0 && n%17 != 0 && n%257 != 0 {
			ns = append(ns, n)
		}
	}
	found := 0
	for _, qe := range [][2]int{{17, 3855}, {3, 21845}, {5, 13107}, {257, 255}} {
		q, e := qe[0], qe[1]
		// b: a shard whose n is congruent to that of shard 0 (n=1) modulo q
		b := -1
		for i := 2; i < len(ns) && i < 300; i++ {
			if (ns[i]-ns[0])%q == 0 {
				b = i
				break
			}
		}
		if b < 0 {
			continue
		}
		a := 1
		d := b + 1 + rng.Intn(3)
		for _, l := range []int{64, 100, 330, 2000} {
			data := randShards(rng, d, l)
			rows := map[int][]byte{}
			for _, ee := range []int{0, e} {
				row := make([]byte, l)
				for j := 0; j < d; j++ {
					f := refParityElem("vandermonde", d, ee, j)
					for w := 0; w < l; w += 2 {
						x := gf16.Mul(f, uint16(data[j][w])|uint16(data[j][w+1])<<8)
						row[w] ^= byte(x)
						row[w+1] ^= byte(x >> 8)
					}
				}
				rows[ee] = row
			}
			for _, g := range []int{1, 2, 3, 8, 16} {
				coder, err := rsec16.NewCoderPAR2Vandermonde(d, e+1, g)
				if err != nil {
					r.Violate("newcoder-error", "%v", err)
					return
				}
				for rep := 0; rep < 3; rep++ {
					in := make([][]byte, d)
					for i := range in {
						if i != a && i != b {
							in[i] = append(make([]byte, 0, l), data[i]...)
						}
					}
					parity := make([][]byte, e+1)
					parity[0], parity[e] = rows[0], rows[e]
					var rerr error
					core.Note("C12 sparse reconstruction d=%d missing={%d,%d} exponents {0,%d} len=%d g=%d", d, a, b, e, l, g)
					if pi := core.Protect(func() { rerr = coder.ReconstructData(in, parity) }); pi != nil {
						r.Violate("reconstruct-panic|"+pi.Frame, "d=%d missing {%d,%d} exponents {0,%d} len=%d g=%d: %s", d, a, b, e, l, g, pi.Msg)
						continue
					}
					if rerr != nil {
						r.SetAdd("sparse_errors", rerr.Error())
						continue
					}
					for i := range data {
						if !bytes.Equal(in[i], data[i]) {
							r.Violate("bytes-differ-from-single-thread", "ReconstructData d=%d missing {%d,%d} exponents {0,%d} len=%d g=%d GOMAXPROCS=%d: shard %d is not the original (byte %d)", d, a, b, e, l, g, p.Procs, i, firstDiff(in[i], data[i]))
							break
						}
					}
					r.Count("sparse_reconstructions", 1)
				}
				r.Key("sparse|q=%d|len=%d|g=%d|procs=%d", q, l, g, p.Procs)
			}
		}
		found++
	}
	r.Sample(map[string]interface{}{"mode": "sparse", "geometries": found, "GOMAXPROCS": p.Procs})
}

func (c *c12) runCoder(r *core.R, p c12Params) {
	old := runtime.GOMAXPROCS(p.Procs)
	defer runtime.GOMAXPROCS(old)
	rng := rand.New(rand.NewSource(p.Seed))
	d, pc := 3, 2
	if p.D > 0 {
		d = p.D
	}
	missing := map[int]bool{0: true, 2 % d: true}
	if p.Missing > 2 && p.Missing < d {
		pc = p.Missing + 2
		missing = map[int]bool{}
		for _, i := range rng.Perm(d)[:p.Missing] {
			missing[i] = true
		}
	}
	for _, kind := range []string{"vandermonde", "cauchy"} {
		for _, l := range p.Lens {
			data := randShards(rng, d, l)
			ref, err := c07NewCoder(kind, d, pc, 1)
			if err != nil {
				r.Violate("newcoder-error", "%v", err)
				return
			}
			c12rec.perturb = false
			c12rec.begin(0)
			refParity := ref.GenerateParity(data)
			for _, g := range p.Workers {
				if p.RaceMode && kind == "cauchy" && g%2 == 1 {
					continue
				}
				coder, err := c07NewCoder(kind, d, pc, g)
				if err != nil {
					r.Violate("newcoder-error", "%v", err)
					return
				}
				for rep := 0; rep < maxi(1, p.Repeats); rep++ {
					c12rec.perturb = true
					c12rec.begin(uint64(p.Seed) ^ uint64(l)<<20 ^ uint64(g)<<8 ^ uint64(rep))
					core.Note("C12 GenerateParity %s len=%d g=%d procs=%d", kind, l, g, p.Procs)
					var parity [][]byte
					if pi := core.Protect(func() { parity = coder.GenerateParity(data) }); pi != nil {
						r.Violate("generate-panic|"+pi.Frame, "%s len=%d g=%d: %s", kind, l, g, pi.Msg)
						continue
					}
					c12rec.perturb = false
					c12rec.check(r, "GenerateParity/"+kind, l, g, pc)
					for e := range refParity {
						if !bytes.Equal(parity[e], refParity[e]) {
							r.Violate("bytes-differ-from-single-thread", "GenerateParity %s len=%d g=%d GOMAXPROCS=%d: parity shard %d differs from the g=1 result at byte %d", kind, l, g, p.Procs, e, firstDiff(parity[e], refParity[e]))
							break
						}
					}
					// Reconstruct two missing shards.
					in := make([][]byte, d)
					for i := range in {
						if !missing[i] {
							in[i] = append([]byte(nil), data[i]...)
						}
					}
					c12rec.perturb = true
					c12rec.begin(uint64(p.Seed) ^ uint64(l)<<21 ^ uint64(g)<<9 ^ uint64(rep) ^ 1)
					core.Note("C12 ReconstructData %s len=%d g=%d procs=%d", kind, l, g, p.Procs)
					var rerr error
					if pi := core.Protect(func() { rerr = coder.ReconstructData(in, append([][]byte(nil), refParity...)) }); pi != nil {
						r.Violate("reconstruct-panic|"+pi.Frame, "%s len=%d g=%d: %s", kind, l, g, pi.Msg)
						continue
					}
					c12rec.perturb = false
					if rerr != nil {
						r.Violate("reconstruct-error", "%s len=%d g=%d: %v", kind, l, g, rerr)
						continue
					}
					c12rec.check(r, "ReconstructData/"+kind, l, g, 2)
					for i := range data {
						if !bytes.Equal(in[i], data[i]) {
							r.Violate("bytes-differ-from-single-thread", "ReconstructData %s len=%d g=%d GOMAXPROCS=%d: shard %d wrong at byte %d", kind, l, g, p.Procs, i, firstDiff(in[i], data[i]))
							break
						}
					}
					r.Count("coder_runs", 2)
				}
				r.Key("coder|%s|len=%d|g=%d|procs=%d|race=%v", kind, l, g, p.Procs, p.RaceMode)
			}
		}
	}
	r.Sample(map[string]interface{}{"mode": "coder", "lens": fmt.Sprintf("%d..%d (%d)", p.Lens[0], p.Lens[len(p.Lens)-1], len(p.Lens)), "workers": p.Workers, "GOMAXPROCS": p.Procs, "race_build": p.RaceMode})
}

func maxi(a, b int) int {
	if a > b {
		return a
	}
	return b
}

func (c *c12) runCreate(r *core.R, p c12Params) {
	rng := rand.New(rand.NewSource(p.Seed))
	slice := []int{4, 8, 20, 64, 100, 512, 2000, 2004, 4100}[rng.Intn(9)]
	nf := 1 + rng.Intn(4)
	if p.Dup == "yes" {
		nf = 3 + rng.Intn(3)
	}
	set := scen.Set{SliceSize: slice, Blocks: 1 + rng.Intn(6)}
	if p.Bogus || p.Conflict {
		set.Blocks = 12
	}
	if p.BigFiles {
		nf = 2 + rng.Intn(3)
	}
	for i := 0; i < nf; i++ {
		n := scen.SizeAround(rng, slice, false)
		if p.BigFiles {
			n = 17000 + rng.Intn(24000)
		}
		set.Files = append(set.Files, scen.File{Name: scen.GenName(rng, i, true, true), Data: scen.GenData(rng, "random", n, slice)})
	}
	if p.BigFiles && slice < 512 {
		slice = 2000
		set.SliceSize = slice
	}
	if (p.Seed%2 == 0 || p.Dup == "yes") && nf >= 2 {
		// identical slices in different files: scanning them touches the same
		// bookkeeping entries
		shared := scen.GenData(rng, "random", 3*slice, slice)
		for i := range set.Files {
			set.Files[i].Data = append(append([]byte(nil), shared...), set.Files[i].Data...)
		}
		set.Content = "dupslices"
	}
	gs := []int{1, 2, 3, 7, 16, 64, 1000}
	if p.HugeG {
		gs = []int{1, 2, 16, 65536, 65537, 1 << 20}
	}
	if p.RaceMode {
		gs = []int{1, 3, 16}
	}
	var refSnap map[string]string
	var refDir string
	root, err := os.MkdirTemp("", "c12-")
	if err != nil {
		r.Inconclusive("tempdir: %v", err)
		return
	}
	defer os.RemoveAll(root)
	c12rec.perturb = true
	for _, g := range gs {
		dir := filepath.Join(root, fmt.Sprintf("g%d", g))
		paths, err := set.Materialize(dir)
		if err != nil {
			r.Inconclusive("materialize: %v", err)
			return
		}
		c12rec.begin(uint64(p.Seed) ^ uint64(g))
		var cerr error
		if pi := core.Protect(func() {
			cerr = par2.Create(filepath.Join(dir, "set.par2"), paths, par2.CreateOptions{SliceByteCount: slice, NumParityShards: set.Blocks, NumGoroutines: g})
		}); pi != nil {
			r.Violate("create-panic|"+pi.Frame, "Create g=%d slice=%d: %s", g, slice, pi.Msg)
			return
		}
		if cerr != nil {
			r.Violate("create-error", "Create g=%d slice=%d files=%d: %v", g, slice, nf, cerr)
			return
		}
		snap := scen.Snapshot(dir)
		if refSnap == nil {
			refSnap, refDir = snap, dir
		} else if d := scen.DiffSnap(refSnap, snap); len(d) > 0 {
			r.Violate("create-output-depends-on-goroutines", "Create output differs between g=%d and g=%d (slice=%d blocks=%d): %v", gs[0], g, slice, set.Blocks, d)
		}
		if p.Bogus {
			c12SpoilHighestBlock(dir)
		}
		if p.Conflict {
			c12ConflictingBlock(dir)
		}
		if p.FlipVolume {
			// one byte of the first recovery file altered (inside a packet):
			// whatever Repair makes of that, it makes it for every option
			if vols, _ := filepath.Glob(filepath.Join(dir, "set.vol*.par2")); len(vols) > 0 {
				sort.Strings(vols)
				if b, err := os.ReadFile(vols[0]); err == nil && len(b) > 80 {
					b[len(b)-3] ^= 0x20
					os.WriteFile(vols[0], b, 0644)
				}
			}
		}
		// Damage: remove the first file and repair with this g.
		os.Remove(paths[0])
		c12rec.begin(uint64(p.Seed) ^ uint64(g) ^ 77)
		var rerr error
		var res par2.RepairResult
		if pi := core.Protect(func() {
			res, rerr = par2.Repair(filepath.Join(dir, "set.par2"), par2.RepairOptions{NumGoroutines: g, DoubleCheck: (g%2 == 0 || p.Bogus) && !p.Conflict})
		}); pi != nil {
			r.Violate("repair-panic|"+pi.Frame, "Repair g=%d: %s", g, pi.Msg)
			return
		}
		_ = res
		after := scen.Snapshot(dir)
		if g == gs[0] {
			r.SetAdd("repair_outcomes", fmt.Sprintf("err=%v", rerr))
		}
		// Compare repair outcome with that of the first g.
		key := fmt.Sprintf("%v|%v", rerr, scen.DiffSnap(refSnap, after))
		if g == gs[0] {
			refRepairKey = key
		} else if key != refRepairKey {
			r.Violate("repair-result-depends-on-goroutines", "Repair outcome differs between g=%d (%s) and g=%d (%s)", gs[0], refRepairKey, g, key)
		}
		r.Count("create_repair_runs", 1)
		r.Key("create|slice=%d|files=%d|blocks=%d|g=%d|race=%v", slice, nf, set.Blocks, g, p.RaceMode)
	}
	_ = refDir
	c12rec.perturb = false
	r.Sample(map[string]interface{}{"mode": "create", "slice": slice, "files": nf, "blocks": set.Blocks, "goroutine_options": gs, "race_build": p.RaceMode})
}

var refRepairKey string

// c12ConflictingBlock writes "set.aa-other.par2": the critical packets, a
// copy of the recovery packet with the lowest exponent whose payload is
// altered (fresh hash), and padding packets that make the file several times
// larger than any real recovery file.
func c12ConflictingBlock(dir string) {
	ents, _ := os.ReadDir(dir)
	var crit []par2rw.Packet
	var low *par2rw.Packet
	lowExp := -1
	for _, e := range ents {
		if !strings.HasSuffix(e.Name(), ".par2") {
			continue
		}
		b, err := os.ReadFile(filepath.Join(dir, e.Name()))
		if err != nil {
			continue
		}
		pk, err := par2rw.ParseStrict(b)
		if err != nil {
			continue
		}
		for i := range pk {
			switch pk[i].Type {
			case par2rw.TypeRecv:
				if rv, err := par2rw.DecodeRecv(pk[i].Body); err == nil && (lowExp < 0 || int(rv.Exp) < lowExp) {
					lowExp = int(rv.Exp)
					q := pk[i]
					low = &q
				}
			case par2rw.TypeMain, par2rw.TypeFileDesc, par2rw.TypeIFSC, par2rw.TypeCreator:
				if e.Name() == "set.par2" {
					crit = append(crit, pk[i])
				}
			}
		}
	}
	if low == nil || len(crit) == 0 {
		return
	}
	body := append([]byte(nil), low.Body...)
	body[len(body)-1] ^= 0x77
	out := append([]par2rw.Packet{}, crit...)
	out = append(out, par2rw.Packet{SetID: low.SetID, Type: par2rw.TypeRecv, Body: body})
	var unknown [16]byte
	copy(unknown[:], "PAR 2.0\x00Padding\x00")
	for i := 0; i < 40; i++ {
		out = append(out, par2rw.Packet{SetID: low.SetID, Type: unknown, Body: make([]byte, 4096)})
	}
	os.WriteFile(filepath.Join(dir, "set.aa-other.par2"), par2rw.Serialize(out), 0644)
}

// c12SpoilHighestBlock rewrites the recovery packet with the highest
// exponent found in dir with a different payload and a fresh packet hash.
func c12SpoilHighestBlock(dir string) {
	ents, _ := os.ReadDir(dir)
	best, bestFile, bestIdx := -1, "", -1
	parsed := map[string][]par2rw.Packet{}
	for _, e := range ents {
		if !strings.HasSuffix(e.Name(), ".par2") {
			continue
		}
		b, err := os.ReadFile(filepath.Join(dir, e.Name()))
		if err != nil {
			continue
		}
		pk, err := par2rw.ParseStrict(b)
		if err != nil {
			continue
		}
		parsed[e.Name()] = pk
		for i := range pk {
			if pk[i].Type == par2rw.TypeRecv {
				if rv, err := par2rw.DecodeRecv(pk[i].Body); err == nil && int(rv.Exp) > best {
					best, bestFile, bestIdx = int(rv.Exp), e.Name(), i
				}
			}
		}
	}
	if bestIdx < 0 {
		return
	}
	pk := parsed[bestFile]
	body := append([]byte(nil), pk[bestIdx].Body...)
	body[len(body)-1] ^= 0x5a
	body[4] ^= 0x11
	pk[bestIdx].Body = body
	os.WriteFile(filepath.Join(dir, bestFile), par2rw.Serialize(pk), 0644)
}

func (c *c12) runCores(r *core.R, p c12Params) {
	old := cpuid.CPU.PhysicalCores
	defer func() { cpuid.CPU.PhysicalCores = old }()
	for _, pc := range []int{0, 1, 2, old, 1024} {
		cpuid.CPU.PhysicalCores = pc
		var n int
		if pi := core.Protect(func() { n = rsec16.DefaultNumGoroutines() }); pi != nil {
			r.Violate("default-goroutines-panic", "PhysicalCores=%d: %s", pc, pi.Msg)
			continue
		}
		if n < 1 {
			r.Violate("default-goroutines-not-positive", "cpuid.CPU.PhysicalCores=%d (cpuid's value when the count cannot be detected is 0): DefaultNumGoroutines() = %d", pc, n)
		}
		// And the default option must work end to end.
		root, _ := os.MkdirTemp("", "c12c-")
		set := scen.Set{SliceSize: 8, Blocks: 2, Files: []scen.File{{Name: "f", Data: []byte("0123456789abcdefghij")}}}
		paths, _ := set.Materialize(root)
		var err error
		if pi := core.Protect(func() {
			err = par2.Create(filepath.Join(root, "s.par2"), paths, par2.CreateOptions{SliceByteCount: 8, NumParityShards: 2})
		}); pi != nil {
			r.Violate("create-default-goroutines-panic|"+pi.Frame, "PhysicalCores=%d: Create with the default goroutine option panicked: %s", pc, pi.Msg)
		} else if err != nil {
			r.Violate("create-default-goroutines-error", "PhysicalCores=%d: %v", pc, err)
		}
		os.RemoveAll(root)
		r.Key("cores|%d", pc)
	}
	r.Sample(map[string]interface{}{"mode": "cores", "physical_core_values": []int{0, 1, 2, old, 1024}})
}
