package checks

import (
	"bytes"
	"fmt"
	"math/rand"
	"sync"

	"github.com/akalin/gopar/rsec16"

	"verifharness/internal/core"
	"verifharness/internal/ref/gf16"
)

// C07 — Reed-Solomon coder recovers any erasure pattern within capability.

type c07 struct{ base }

type c07Params struct {
	Mode   string `json:"mode"` // exhaustive | random | limits | singular
	Coder  string `json:"coder"`
	D      int    `json:"d"`
	P      int    `json:"p"`
	Seed   int64  `json:"seed"`
	Lens   []int  `json:"lens,omitempty"`
	Gs     []int  `json:"gs,omitempty"`
	Trials int    `json:"trials,omitempty"`
}

func init() {
	register(&c07{base{
		id:          "C07",
		level:       lvlExploration,
		rule:        "exhaustive mode: for every (coder, data shards d=1..6, parity shards p=1..4) ALL 2^d missing-data x 2^p missing-parity subsets x shard lengths x goroutine counts are reconstructed from random shard contents; random mode: seeded larger codes and erasure patterns; singular mode: analytically constructed singular PAR2-Vandermonde sub-systems and their non-singular neighbours; limits: documented size limits. Oracle: success is demanded iff |missing| <= |available parity| and (Vandermonde) the forced sub-matrix (lowest available parity rows x missing columns) is non-singular by the reference elimination. A key is (coder,d,p,missing set,available-parity set,len,g); trivial = nothing missing. Shard length 0 is part of the grids. After every call that returned an error the call is repeated on the very same slices: a nil answer then still obliges to the originals. Constructed singular systems are also run with a spare parity shard after the dependent pair (still an error).. Every third trial hands over a parity slice shorter than the coder's parity count (prefix of a longer array). GOARCH=386 build of the worker: the documented limits (also 4 x 65535 and 7 x 40000 Vandermonde codes), two exhaustive grids and large random codes. Mode concurrent-shapes: eight goroutines build and use coders of 108 shapes at the same time (640 000 uses per quick run), parity compared with precomputed definitions.",
		assumptions: append([]string{"PAR2 constants 2^n with n not divisible by 3,5,17,257 and the Cauchy definition 1/((d+i) xor j) are taken from the specification / the documented construction, recomputed in internal/ref/gf16"}, commonAssumptions...),
		opts:        core.WorkerOpts{CrashIsViolation: true, WallSeconds: 1800, Exhaustive: true, Extra: map[string]interface{}{"exhaustive_subspace": "data shards 1..6 x parity shards 1..4 (thorough: 1..8 x 1..5): all erasure subsets of data and parity, both coders, listed shard lengths and goroutine counts"}},
	}})
}

func (c *c07) Cases(tier string, seed int64) []core.Case {
	var cs []core.Case
	lens := []int{0, 2, 30, 32, 34, 66}
	gs := []int{1, 3}
	nrand := 60
	if tier == "thorough" {
		lens = []int{0, 2, 4, 30, 32, 34, 62, 64, 66, 130}
		gs = []int{1, 2, 5, 16}
		nrand = 3000
	}
	r := core.Rng("C07", tier, seed)
	maxD, maxP := 6, 4
	if tier == "thorough" {
		maxD, maxP = 8, 5
	}
	for _, coder := range []string{"cauchy", "vandermonde"} {
		for d := 1; d <= maxD; d++ {
			for p := 1; p <= maxP; p++ {
				cs = append(cs, core.MkCase(fmt.Sprintf("exh-%s-d%d-p%d", coder, d, p), c07Params{Mode: "exhaustive", Coder: coder, D: d, P: p, Seed: r.Int63(), Lens: lens, Gs: gs}))
			}
		}
		for i := 0; i < nrand; i++ {
			d := 1 + r.Intn(40)
			p := 1 + r.Intn(20)
			if i%5 == 0 {
				d = 50 + r.Intn(250)
				p = 1 + r.Intn(60)
			}
			cs = append(cs, core.MkCase(fmt.Sprintf("rnd-%s-d%d-p%d-%d", coder, d, p, i), c07Params{Mode: "random", Coder: coder, D: d, P: p, Seed: r.Int63(), Trials: 6}))
		}
	}
	cs = append(cs, core.MkCase("singular-constructed", c07Params{Mode: "singular", Seed: r.Int63()}))
	cs = append(cs, core.MkCase("singular-search", c07Params{Mode: "singular-search", Seed: r.Int63(), Trials: map[string]int{"quick": 300, "thorough": 5000}[tier]}))
	cs = append(cs, core.MkCase("limits", c07Params{Mode: "limits", Seed: r.Int63()}))
	cs = append(cs, core.MkCase("zero-pivot-constructed", c07Params{Mode: "zero-pivot", Seed: r.Int63()}))
	// coders of many different shapes built and used by several goroutines at
	// the same time (anything remembered per shape is then shared)
	for i := 0; i < map[string]int{"quick": 2, "thorough": 8}[tier]; i++ {
		cs = append(cs, core.MkCase(fmt.Sprintf("concurrent-shapes-%d", i), c07Params{Mode: "concurrent-shapes", Seed: r.Int63(), Trials: map[string]int{"quick": 40000, "thorough": 200000}[tier]}))
	}
	// The GOARCH=386 build of the worker (32-bit int, portable kernels): the
	// documented limits, two exhaustive grids and a few large random codes.
	for _, cc := range []core.Case{
		core.MkCase("386:limits", c07Params{Mode: "limits", Seed: r.Int63()}),
		core.MkCase("386:exh-vandermonde-d3-p3", c07Params{Mode: "exhaustive", Coder: "vandermonde", D: 3, P: 3, Seed: r.Int63(), Lens: lens, Gs: gs}),
		core.MkCase("386:exh-cauchy-d3-p3", c07Params{Mode: "exhaustive", Coder: "cauchy", D: 3, P: 3, Seed: r.Int63(), Lens: lens, Gs: gs}),
		core.MkCase("386:rnd-vandermonde-d200-p50", c07Params{Mode: "random", Coder: "vandermonde", D: 200, P: 50, Seed: r.Int63(), Trials: 4}),
		core.MkCase("386:rnd-cauchy-d200-p50", c07Params{Mode: "random", Coder: "cauchy", D: 200, P: 50, Seed: r.Int63(), Trials: 4}),
	} {
		cc.Arch386 = true
		cs = append(cs, cc)
	}
	return cs
}

var par2Consts = gf16.Par2Constants(32768)

func c07NewCoder(kind string, d, p, g int) (rsec16.Coder, error) {
	// History: a coder of the OTHER kind with the same geometry is created
	// (and used once) first, so that anything cached per geometry would be
	// shared across kinds.
	if d*p <= 40000 {
		var other rsec16.Coder
		var err error
		if kind == "cauchy" {
			other, err = rsec16.NewCoderPAR2Vandermonde(d, p, g)
		} else {
			other, err = rsec16.NewCoderCauchy(d, p, g)
		}
		if err == nil {
			warm := make([][]byte, d)
			for i := range warm {
				warm[i] = []byte{byte(i), 1}
			}
			core.Protect(func() { other.GenerateParity(warm) })
		}
	}
	if kind == "cauchy" {
		return rsec16.NewCoderCauchy(d, p, g)
	}
	return rsec16.NewCoderPAR2Vandermonde(d, p, g)
}

// refParityElem is the parity matrix element (row e, column j).
func refParityElem(kind string, d, e, j int) uint16 {
	if kind == "cauchy" {
		return gf16.Inv(uint16(d+e) ^ uint16(j))
	}
	return gf16.Pow(par2Consts[j], uint64(e))
}

func refParity(kind string, data [][]byte, p int) [][]byte {
	d := len(data)
	l := len(data[0])
	out := make([][]byte, p)
	for e := 0; e < p; e++ {
		out[e] = make([]byte, l)
		for j := 0; j < d; j++ {
			f := refParityElem(kind, d, e, j)
			for w := 0; w < l; w += 2 {
				v := uint16(data[j][w]) | uint16(data[j][w+1])<<8
				x := gf16.Mul(f, v)
				out[e][w] ^= byte(x)
				out[e][w+1] ^= byte(x >> 8)
			}
		}
	}
	return out
}

// c07Trial runs one reconstruction and judges it.
func (c *c07) trial(r *core.R, kind string, coder rsec16.Coder, d, p, g int, data, parity [][]byte, missing, availPar []int, sampleParity bool) {
	l := len(data[0])
	in := make([][]byte, d)
	saved := make([][]byte, d)
	for i := range data {
		in[i] = append(make([]byte, 0, len(data[i])+1), data[i]...)
		saved[i] = in[i]
	}
	for _, m := range missing {
		in[m] = nil
	}
	par := make([][]byte, p)
	for _, a := range availPar {
		par[a] = append(make([]byte, 0, len(parity[a])+1), parity[a]...)
	}
	parSaved := make([][]byte, p)
	copy(parSaved, par)

	// Oracle.
	expect := "ok"
	if len(missing) == 0 {
		expect = "ok"
	} else if len(missing) > len(availPar) {
		expect = "notenough"
	} else if kind == "vandermonde" {
		used := availPar[:len(missing)]
		sub := gf16.NewMatrix(len(missing), len(missing))
		for i, e := range used {
			for j, col := range missing {
				sub.Set(i, j, refParityElem(kind, d, e, col))
			}
		}
		if sub.Singular() {
			expect = "singular"
			r.Count("singular_systems", 1)
		}
	}
	// Every third trial hands over a parity slice that is SHORTER than the
	// coder's parity count (it ends after the last available shard) and is a
	// prefix of a longer array whose tail still holds shards: what lies behind
	// len() is not there.
	if l > 0 && (len(missing)+len(availPar)+d)%3 == 0 {
		k := 0
		for _, a := range availPar {
			if a+1 > k {
				k = a + 1
			}
		}
		full := make([][]byte, p)
		copy(full, par)
		for a := k; a < p; a++ {
			full[a] = append(make([]byte, 0, l), parity[a]...) // stale, behind len
		}
		par = full[:k]
		r.Count("short_parity_slices", 1)
	}
	var err error
	if pi := core.Protect(func() { err = coder.ReconstructData(in, par) }); pi != nil {
		r.Violate("reconstruct-panic|"+pi.Frame, "%s d=%d p=%d g=%d len=%d missing=%v availParity=%v: panic %s", kind, d, p, g, l, missing, availPar, pi.Msg)
		return
	}
	desc := fmt.Sprintf("%s d=%d p=%d g=%d len=%d missing=%v availParity=%v", kind, d, p, g, l, missing, availPar)
	_, isNE := err.(rsec16.NotEnoughParityShardsError)
	switch expect {
	case "ok":
		if err != nil {
			r.Violate("reconstruct-failed-within-capability", "%s: error %v", desc, err)
		}
	case "notenough":
		if !isNE {
			r.Violate("wrong-error-for-too-few-parity", "%s: expected NotEnoughParityShardsError, got %v", desc, err)
		}
	case "singular":
		if err == nil {
			r.Violate("success-on-singular-system", "%s: nil error although the forced sub-matrix is singular", desc)
		} else if isNE {
			r.Violate("wrong-error-for-singular", "%s: NotEnoughParityShardsError for a singular system with enough parity", desc)
		}
	}
	if err == nil {
		for i := range data {
			if !bytes.Equal(in[i], data[i]) {
				r.Violate("nil-error-wrong-data", "%s: shard %d differs after nil error (got %x.. want %x..)", desc, i, head(in[i]), head(data[i]))
				break
			}
		}
	}
	// Supplied shards untouched (same backing array, same bytes).
	for i := range data {
		if saved[i] == nil || isIn(i, missing) {
			continue
		}
		if l > 0 && (len(in[i]) == 0 || &in[i][0] != &saved[i][0]) || l == 0 && (in[i] == nil || len(in[i]) != 0) {
			r.Violate("supplied-shard-replaced", "%s: supplied data shard %d was replaced", desc, i)
		} else if !bytes.Equal(saved[i], data[i]) {
			r.Violate("supplied-shard-altered", "%s: supplied data shard %d was altered", desc, i)
		}
	}
	for _, a := range availPar {
		if !bytes.Equal(parSaved[a], parity[a]) {
			r.Violate("supplied-parity-altered", "%s: supplied parity shard %d was altered", desc, a)
		}
	}
	// A caller that got an error tries again with the very same slices (for
	// instance after fetching more parity): the second answer must be
	// truthful as well, whatever the first call left in the missing slots.
	if err != nil && len(missing) > 0 && l > 0 {
		var err2 error
		if pi := core.Protect(func() { err2 = coder.ReconstructData(in, par) }); pi != nil {
			r.Violate("reconstruct-panic|"+pi.Frame, "%s: second call on the same slices panicked: %s", desc, pi.Msg)
		} else if err2 == nil {
			for i := range data {
				if !bytes.Equal(in[i], data[i]) {
					r.Violate("nil-error-wrong-data", "%s: first call failed (%v); a second call on the same slices returned nil, but shard %d is not the original", desc, err, i)
					break
				}
			}
		}
		r.Count("second_calls_after_error", 1)
	}
	r.Count("reconstructions", 1)
	if len(missing) > 0 {
		r.Key("%s|%d|%d|%v|%v|%d|%d", kind, d, p, missing, availPar, l, g)
		r.Count("outcome_"+expect, 1)
	}
}

func head(b []byte) []byte {
	if len(b) > 8 {
		return b[:8]
	}
	return b
}

func isIn(x int, s []int) bool {
	for _, v := range s {
		if v == x {
			return true
		}
	}
	return false
}

func randShards(rng *rand.Rand, n, l int) [][]byte {
	out := make([][]byte, n)
	for i := range out {
		out[i] = make([]byte, l)
		rng.Read(out[i])
	}
	return out
}

func subsetOf(mask, n int) []int {
	var s []int
	for i := 0; i < n; i++ {
		if mask&(1<<uint(i)) != 0 {
			s = append(s, i)
		}
	}
	return s
}

func (c *c07) genParity(r *core.R, kind string, coder rsec16.Coder, data [][]byte, p int, checkRef bool) [][]byte {
	var parity [][]byte
	if pi := core.Protect(func() { parity = coder.GenerateParity(data) }); pi != nil {
		r.Violate("generate-panic|"+pi.Frame, "%s d=%d p=%d len=%d GenerateParity panicked: %s", kind, len(data), p, len(data[0]), pi.Msg)
		return nil
	}
	if checkRef {
		want := refParity(kind, data, p)
		for e := range want {
			if !bytes.Equal(parity[e], want[e]) {
				r.Violate("parity-differs-from-definition", "%s d=%d p=%d len=%d: parity shard %d != sum c_ij*data_j by reference arithmetic", kind, len(data), p, len(data[0]), e)
				break
			}
		}
		r.Count("parity_sets_checked_against_definition", 1)
	}
	return parity
}

func (c *c07) Run(cs core.Case) core.Result {
	var p c07Params
	core.Decode(cs, &p)
	r := core.NewR(cs)
	rng := rand.New(rand.NewSource(p.Seed))
	switch p.Mode {
	case "exhaustive":
		for _, l := range p.Lens {
			for _, g := range p.Gs {
				coder, err := c07NewCoder(p.Coder, p.D, p.P, g)
				if err != nil {
					r.Violate("newcoder-error", "%s d=%d p=%d: %v", p.Coder, p.D, p.P, err)
					return r.Done()
				}
				data := randShards(rng, p.D, l)
				parity := c.genParity(r, p.Coder, coder, data, p.P, true)
				if parity == nil {
					return r.Done()
				}
				for dm := 0; dm < 1<<uint(p.D); dm++ {
					for pm := 0; pm < 1<<uint(p.P); pm++ {
						c.trial(r, p.Coder, coder, p.D, p.P, g, data, parity, subsetOf(dm, p.D), subsetOf(pm, p.P), false)
					}
				}
			}
		}
		r.Sample(map[string]interface{}{"mode": "exhaustive", "coder": p.Coder, "d": p.D, "p": p.P, "lens": p.Lens, "goroutines": p.Gs, "subsets": fmt.Sprintf("all %d x %d", 1<<uint(p.D), 1<<uint(p.P))})
	case "random":
		l := 2 * (1 + rng.Intn(40))
		if rng.Intn(4) == 0 {
			l = []int{2, 16, 32, 64, 100, 256, 1024}[rng.Intn(7)]
		}
		g := []int{1, 2, 3, 7, 16, 64}[rng.Intn(6)]
		coder, err := c07NewCoder(p.Coder, p.D, p.P, g)
		if err != nil {
			r.Violate("newcoder-error", "%s d=%d p=%d: %v", p.Coder, p.D, p.P, err)
			return r.Done()
		}
		data := randShards(rng, p.D, l)
		parity := c.genParity(r, p.Coder, coder, data, p.P, p.D*p.P*l < 200000)
		if parity == nil {
			return r.Done()
		}
		for t := 0; t < p.Trials; t++ {
			nAvail := rng.Intn(p.P + 1)
			avail := rng.Perm(p.P)[:nAvail]
			sortInts(avail)
			var nMiss int
			switch t % 3 {
			case 0:
				nMiss = nAvail // exactly at capacity
			case 1:
				nMiss = rng.Intn(nAvail + 1)
			default:
				nMiss = nAvail + 1 // one too many
			}
			if nMiss > p.D {
				nMiss = p.D
			}
			miss := rng.Perm(p.D)[:nMiss]
			sortInts(miss)
			c.trial(r, p.Coder, coder, p.D, p.P, g, data, parity, miss, avail, false)
		}
		r.Sample(map[string]interface{}{"mode": "random", "coder": p.Coder, "d": p.D, "p": p.P, "len": l, "g": g})
	case "singular":
		// (c_i/c_j)^(e2-e1) = 1: constants 2^n with n differing by
		// 257*k and exponent gap 255, or n differing by 21845*k and gap 3.
		type cons struct{ dn, gap int }
		idxOfN := map[int]int{}
		k := 0
		for n := 0; n < 65535 && k < 32768; n++ {
			if n%3 != 0 && n%5 != 0 && n%17 != 0 && n%257 != 0 {
				idxOfN[n] = k
				k++
			}
		}
		found := 0
		for _, cn := range []cons{{257, 255}, {514, 255}, {21845, 3}, {13107, 5}, {3855, 17}, {255, 257}} {
			for n1 := 1; n1 < 400 && found < 40; n1++ {
				n2 := n1 + cn.dn
				i1, ok1 := idxOfN[n1]
				i2, ok2 := idxOfN[n2]
				if !ok1 || !ok2 {
					continue
				}
				d := i2 + 1
				if d > 12000 {
					continue
				}
				for _, e1 := range []int{0, 1, 7} {
					e2 := e1 + cn.gap
					pcount := e2 + 2
					// keep the matrices small: only build coders up to 600k elements
					if d*pcount > 3000000 {
						continue
					}
					coder, err := rsec16.NewCoderPAR2Vandermonde(d, pcount, 2)
					if err != nil {
						r.Violate("newcoder-error", "vandermonde d=%d p=%d: %v", d, pcount, err)
						continue
					}
					data := randShards(rng, d, 4)
					parity := c.genParity(r, "vandermonde", coder, data, pcount, false)
					if parity == nil {
						continue
					}
					before := r.Done().Counters["singular_systems"]
					c.trial(r, "vandermonde", coder, d, pcount, 2, data, parity, []int{i1, i2}, []int{e1, e2}, false)
					if r.Done().Counters["singular_systems"] == before {
						r.Violate("harness-construction", "constructed system n=(%d,%d) e=(%d,%d) is not singular by the reference: construction error", n1, n2, e1, e2)
					}
					// the same dependent pair with a spare parity shard after it: the
					// format forces the two lowest-numbered ones, so this is still an error
					c.trial(r, "vandermonde", coder, d, pcount, 2, data, parity, []int{i1, i2}, []int{e1, e2, e2 + 1}, false)
					// non-singular neighbour: next exponent
					c.trial(r, "vandermonde", coder, d, pcount, 2, data, parity, []int{i1, i2}, []int{e1, e2 + 1}, false)
					found++
					break
				}
				if found%7 == 6 {
					break
				}
			}
		}
		r.Count("constructed_singular_cases", int64(found))
		r.Sample(map[string]interface{}{"mode": "singular", "constructed": found, "example": "constants 2^n, 2^(n+257) with recovery exponents e, e+255"})
	case "zero-pivot":
		// Non-singular systems whose leading 2x2 block is singular, so that the
		// elimination meets a zero pivot and has to swap rows: constants with
		// n differing by 257*k under exponents e, e+255, plus a third column/row.
		idxOfN := map[int]int{}
		k := 0
		for n := 0; n < 65535 && k < 32768; n++ {
			if n%3 != 0 && n%5 != 0 && n%17 != 0 && n%257 != 0 {
				idxOfN[n] = k
				k++
			}
		}
		d, pc := 300, 266
		coder, err := rsec16.NewCoderPAR2Vandermonde(d, pc, 3)
		if err != nil {
			r.Violate("newcoder-error", "%v", err)
			return r.Done()
		}
		data := randShards(rng, d, 6)
		parity := c.genParity(r, "vandermonde", coder, data, pc, false)
		if parity == nil {
			return r.Done()
		}
		tried := 0
		for n1 := 1; n1 < 300 && tried < 60; n1++ {
			i1, ok1 := idxOfN[n1]
			i2, ok2 := idxOfN[n1+257]
			if !ok1 || !ok2 || i2 >= d {
				continue
			}
			for _, e1 := range []int{0, 2, 5} {
				third := rng.Intn(d)
				for third == i1 || third == i2 {
					third = rng.Intn(d)
				}
				miss := []int{i1, i2, third}
				sortInts(miss)
				avail := []int{e1, e1 + 255, e1 + 256}
				before := r.Done().Counters["singular_systems"]
				c.trial(r, "vandermonde", coder, d, pc, 3, data, parity, miss, avail, false)
				if r.Done().Counters["singular_systems"] == before {
					r.Count("zero_pivot_nonsingular_systems", 1)
				}
				// and with a fourth erasure
				fourth := rng.Intn(d)
				if !isIn(fourth, miss) {
					m4 := append(append([]int(nil), miss...), fourth)
					sortInts(m4)
					c.trial(r, "vandermonde", coder, d, pc, 3, data, parity, m4, []int{e1, e1 + 255, e1 + 256, e1 + 257}, false)
				}
				tried++
			}
		}
		r.Sample(map[string]interface{}{"mode": "zero-pivot", "systems": tried, "example": "missing slices with constants 2^n, 2^(n+257) + one more; exponents e, e+255, e+256"})
	case "singular-search":
		// Random small sub-systems of large codes: look for singular
		// ones by reference and run whatever is found plus controls.
		d, pc := 2000, 600
		coder, err := rsec16.NewCoderPAR2Vandermonde(d, pc, 3)
		if err != nil {
			r.Violate("newcoder-error", "vandermonde d=%d p=%d: %v", d, pc, err)
			return r.Done()
		}
		data := randShards(rng, d, 6)
		parity := c.genParity(r, "vandermonde", coder, data, pc, false)
		if parity == nil {
			return r.Done()
		}
		for t := 0; t < p.Trials; t++ {
			k := 1 + rng.Intn(4)
			miss := rng.Perm(d)[:k]
			sortInts(miss)
			avail := rng.Perm(pc)[:k+rng.Intn(2)]
			sortInts(avail)
			c.trial(r, "vandermonde", coder, d, pc, 3, data, parity, miss, avail, false)
		}
		r.Sample(map[string]interface{}{"mode": "singular-search", "d": d, "p": pc, "trials": p.Trials})
	case "concurrent-shapes":
		const workers = 8
		// fixed data and the expected parity per shape, computed up front, so
		// that the goroutines spend their time in the constructors and coders
		type shape struct {
			kind   string
			d, pc  int
			data   [][]byte
			parity [][]byte
		}
		var shapes []shape
		for _, kind := range []string{"vandermonde", "cauchy"} {
			for d := 1; d <= 9; d++ {
				for pc := 1; pc <= 6; pc++ {
					data := randShards(rng, d, 4)
					shapes = append(shapes, shape{kind, d, pc, data, refParity(kind, data, pc)})
				}
			}
		}
		var mu sync.Mutex
		var wg sync.WaitGroup
		bad := 0
		start := make(chan struct{})
		for w := 0; w < workers; w++ {
			wg.Add(1)
			go func(w int) {
				defer wg.Done()
				wr := rand.New(rand.NewSource(p.Seed + int64(w)*7919))
				<-start
				for it := 0; it < p.Trials; it++ {
					sh := shapes[wr.Intn(len(shapes))]
					if w%2 == 0 {
						// half of the goroutines stay with the Vandermonde coder
						sh = shapes[wr.Intn(len(shapes)/2)]
					}
					var msg string
					pi := core.Protect(func() {
						var coder rsec16.Coder
						var err error
						if sh.kind == "cauchy" {
							coder, err = rsec16.NewCoderCauchy(sh.d, sh.pc, 1)
						} else {
							coder, err = rsec16.NewCoderPAR2Vandermonde(sh.d, sh.pc, 1)
						}
						if err != nil {
							msg = "constructor: " + err.Error()
							return
						}
						parity := coder.GenerateParity(sh.data)
						if len(parity) != sh.pc {
							msg = fmt.Sprintf("%d parity shards", len(parity))
							return
						}
						for e := range sh.parity {
							if string(parity[e]) != string(sh.parity[e]) {
								msg = fmt.Sprintf("parity shard %d differs from the definition", e)
								return
							}
						}
						if it%8 == 0 {
							// lose the first data shard, keep the first parity shard
							in := make([][]byte, sh.d)
							for i := 1; i < sh.d; i++ {
								in[i] = append([]byte{}, sh.data[i]...)
							}
							par := make([][]byte, sh.pc)
							par[0] = append([]byte{}, parity[0]...)
							if err := coder.ReconstructData(in, par); err != nil {
								msg = "reconstruction of one shard from parity shard 0: " + err.Error()
							} else if string(in[0]) != string(sh.data[0]) {
								msg = "nil error, wrong data"
							}
						}
					})
					if pi != nil || msg != "" {
						mu.Lock()
						bad++
						if bad <= 3 {
							if pi != nil {
								r.Violate("panic-under-concurrent-use|"+pi.Frame, "%s d=%d p=%d while %d goroutines build and use coders of other shapes: %s", sh.kind, sh.d, sh.pc, workers, pi.Msg)
							} else {
								r.Violate("wrong-result-under-concurrent-use", "%s d=%d p=%d while %d goroutines build and use coders of other shapes: %s", sh.kind, sh.d, sh.pc, workers, msg)
							}
						}
						mu.Unlock()
					}
				}
			}(w)
		}
		close(start)
		wg.Wait()
		r.Count("concurrent_coder_uses", int64(workers*p.Trials))
		r.Key("concurrent-shapes|%d|%d", workers, len(shapes))
		r.Sample(map[string]interface{}{"mode": "concurrent-shapes", "goroutines": workers, "uses_per_goroutine": p.Trials, "shapes": len(shapes)})
	case "limits":
		type lim struct {
			kind   string
			d, p   int
			wantOK bool
		}
		for _, lm := range []lim{
			{"cauchy", 65534, 1, true}, {"cauchy", 65535, 1, false}, {"cauchy", 1, 65534, true}, {"cauchy", 1, 65535, false}, {"cauchy", 40000, 25536, false},
			{"vandermonde", 32768, 1, true}, {"vandermonde", 32769, 1, false}, {"vandermonde", 1, 65535, true}, {"vandermonde", 1, 65536, false}, {"vandermonde", 32768, 2, true},
			{"vandermonde", 4, 65535, true}, {"vandermonde", 7, 40000, true}, {"cauchy", 4, 65000, true},
		} {
			var coder rsec16.Coder
			var err error
			if pi := core.Protect(func() { coder, err = c07NewCoder(lm.kind, lm.d, lm.p, 2) }); pi != nil {
				r.Violate("newcoder-panic", "%s d=%d p=%d: panic %s", lm.kind, lm.d, lm.p, pi.Msg)
				continue
			}
			if (err == nil) != lm.wantOK {
				r.Violate("limit-mismatch", "%s d=%d p=%d: error=%v, documented limit says ok=%v", lm.kind, lm.d, lm.p, err, lm.wantOK)
				continue
			}
			r.Key("limit|%s|%d|%d", lm.kind, lm.d, lm.p)
			if err != nil {
				continue
			}
			data := randShards(rng, lm.d, 2)
			parity := c.genParity(r, lm.kind, coder, data, lm.p, false)
			if parity == nil {
				continue
			}
			miss := []int{lm.d - 1}
			avail := []int{lm.p - 1}
			c.trial(r, lm.kind, coder, lm.d, lm.p, 2, data, parity, miss, avail, false)
			if lm.d > 1 {
				c.trial(r, lm.kind, coder, lm.d, lm.p, 2, data, parity, []int{0, lm.d - 1}, avail, false)
				if lm.p > 2 {
					// two lost, only the two highest-numbered parity shards left
					c.trial(r, lm.kind, coder, lm.d, lm.p, 2, data, parity, []int{0, lm.d - 1}, []int{lm.p - 2, lm.p - 1}, false)
				}
			}
		}
		r.Sample(map[string]interface{}{"mode": "limits", "cases": "cauchy d+p=65535/65536, vandermonde d=32768/32769, p=65535/65536"})
	}
	return r.Done()
}

func sortInts(a []int) {
	for i := 1; i < len(a); i++ {
		for j := i; j > 0 && a[j-1] > a[j]; j-- {
			a[j-1], a[j] = a[j], a[j-1]
		}
	}
}
