package gf16

import "testing"

func TestBasics(t *testing.T) {
	if Mul(2, 0x8000) != 0x100B {
		t.Fatalf("x*x^15 = %x", Mul(2, 0x8000))
	}
	for a := 1; a < 65536; a += 7 {
		if Mul(uint16(a), Inv(uint16(a))) != 1 {
			t.Fatalf("inv %d", a)
		}
	}
	if Pow(0, 0) != 1 || Pow(0, 5) != 0 || Pow(2, 65535) != 1 {
		t.Fatal("pow")
	}
	var row [65536]uint16
	Row(0x1234, &row)
	for b := 0; b < 65536; b += 13 {
		if row[b] != Mul(0x1234, uint16(b)) {
			t.Fatalf("row %d", b)
		}
	}
	cs := Par2Constants(5)
	want := []uint16{2, 4, 16, 128, 256}
	for i := range want {
		if cs[i] != want[i] {
			t.Fatalf("constants %v", cs)
		}
	}
	if len(Par2Constants(40000)) != 32768 {
		t.Fatalf("count %d", len(Par2Constants(40000)))
	}
}
