// Package gf16 is an independent implementation of GF(2^16) modulo
// x^16+x^12+x^3+x+1 (0x1100B), written from the polynomial only. It
// shares no code with gopar.
package gf16

import "math/bits"

// Poly is the reduction polynomial.
const Poly = 0x1100B

// Mul is the carry-less product reduced modulo Poly.
func Mul(a, b uint16) uint16 {
	var acc uint32
	x := uint32(a)
	for i := 0; i < 16; i++ {
		if b&(1<<uint(i)) != 0 {
			acc ^= x << uint(i)
		}
	}
	// Reduce the up-to-31-bit product.
	for d := 30; d >= 16; d-- {
		if acc&(1<<uint(d)) != 0 {
			acc ^= Poly << uint(d-16)
		}
	}
	return uint16(acc)
}

// MulX multiplies by x (i.e. by 2).
func MulX(a uint16) uint16 {
	v := uint32(a) << 1
	if v&0x10000 != 0 {
		v ^= Poly
	}
	return uint16(v)
}

// Row fills row[b] = c*b for all b using the linearity recurrence
// row[b] = row[b & (b-1)] ^ c*x^ctz(b).
func Row(c uint16, row *[65536]uint16) {
	var pw [16]uint16
	pw[0] = c
	for i := 1; i < 16; i++ {
		pw[i] = MulX(pw[i-1])
	}
	row[0] = 0
	for b := 1; b < 65536; b++ {
		row[b] = row[b&(b-1)] ^ pw[bits.TrailingZeros32(uint32(b))]
	}
}

// polyDeg returns the degree of a polynomial over GF(2) (-1 for 0).
func polyDeg(p uint32) int { return 31 - bits.LeadingZeros32(p) }

// Inv is the inverse by the extended Euclidean algorithm on
// polynomials over GF(2). It panics for 0.
func Inv(a uint16) uint16 {
	if a == 0 {
		panic("gf16: inverse of zero")
	}
	// Invariant: u*a = r (mod Poly), v*a = s (mod Poly).
	var r, s uint32 = Poly, uint32(a)
	var u, v uint32 = 0, 1
	for s != 1 {
		d := polyDeg(r) - polyDeg(s)
		if d < 0 {
			r, s = s, r
			u, v = v, u
			d = -d
		}
		r ^= s << uint(d)
		u ^= v << uint(d)
		if r == 0 {
			panic("gf16: not invertible")
		}
		if polyDeg(r) < polyDeg(s) {
			r, s = s, r
			u, v = v, u
		}
	}
	// v may have degree >= 16: reduce.
	for d := polyDeg(v); d >= 16; d = polyDeg(v) {
		v ^= Poly << uint(d-16)
	}
	return uint16(v)
}

// Pow is a^p by square and multiply, with 0^0 = 1.
func Pow(a uint16, p uint64) uint16 {
	res := uint16(1)
	base := a
	for p > 0 {
		if p&1 != 0 {
			res = Mul(res, base)
		}
		base = Mul(base, base)
		p >>= 1
	}
	return res
}

// Div is a * Inv(b).
func Div(a, b uint16) uint16 { return Mul(a, Inv(b)) }

// Par2Constants returns the first n PAR2 base constants 2^k for k not
// divisible by 3, 5, 17 or 257.
func Par2Constants(n int) []uint16 {
	out := make([]uint16, 0, n)
	v := uint16(1)
	for k := 0; len(out) < n && k < 65535; k++ {
		if k%3 != 0 && k%5 != 0 && k%17 != 0 && k%257 != 0 {
			out = append(out, v)
		}
		v = MulX(v)
	}
	return out
}

// Matrix is a dense matrix over the field, row major.
type Matrix struct {
	R, C int
	E    []uint16
}

// NewMatrix allocates a zero matrix.
func NewMatrix(r, c int) Matrix { return Matrix{r, c, make([]uint16, r*c)} }

// At returns an element.
func (m Matrix) At(i, j int) uint16 { return m.E[i*m.C+j] }

// Set sets an element.
func (m Matrix) Set(i, j int, v uint16) { m.E[i*m.C+j] = v }

// Clone copies a matrix.
func (m Matrix) Clone() Matrix {
	e := make([]uint16, len(m.E))
	copy(e, m.E)
	return Matrix{m.R, m.C, e}
}

// Mul is the matrix product.
func (m Matrix) Mul(n Matrix) Matrix {
	out := NewMatrix(m.R, n.C)
	for i := 0; i < m.R; i++ {
		for k := 0; k < m.C; k++ {
			a := m.At(i, k)
			if a == 0 {
				continue
			}
			for j := 0; j < n.C; j++ {
				out.E[i*n.C+j] ^= Mul(a, n.At(k, j))
			}
		}
	}
	return out
}

// Solve row-reduces [m | n] and returns (m^-1 n, true) or (_, false)
// when m is singular. It pivots on the LAST row with a non-zero entry
// in the column (deliberately different from gopar's first-row rule).
func (m Matrix) Solve(n Matrix) (Matrix, bool) {
	if m.R != m.C || n.R != m.R {
		panic("gf16: bad dimensions")
	}
	a := m.Clone()
	b := n.Clone()
	sz := m.R
	for col := 0; col < sz; col++ {
		p := -1
		for r := sz - 1; r >= col; r-- {
			if a.At(r, col) != 0 {
				p = r
				break
			}
		}
		if p < 0 {
			return Matrix{}, false
		}
		if p != col {
			for j := 0; j < sz; j++ {
				a.E[p*sz+j], a.E[col*sz+j] = a.E[col*sz+j], a.E[p*sz+j]
			}
			for j := 0; j < b.C; j++ {
				b.E[p*b.C+j], b.E[col*b.C+j] = b.E[col*b.C+j], b.E[p*b.C+j]
			}
		}
		inv := Inv(a.At(col, col))
		for j := 0; j < sz; j++ {
			a.E[col*sz+j] = Mul(a.E[col*sz+j], inv)
		}
		for j := 0; j < b.C; j++ {
			b.E[col*b.C+j] = Mul(b.E[col*b.C+j], inv)
		}
		for r := 0; r < sz; r++ {
			if r == col {
				continue
			}
			f := a.At(r, col)
			if f == 0 {
				continue
			}
			for j := 0; j < sz; j++ {
				a.E[r*sz+j] ^= Mul(f, a.E[col*sz+j])
			}
			for j := 0; j < b.C; j++ {
				b.E[r*b.C+j] ^= Mul(f, b.E[col*b.C+j])
			}
		}
	}
	return b, true
}

// Identity returns the n x n identity.
func Identity(n int) Matrix {
	m := NewMatrix(n, n)
	for i := 0; i < n; i++ {
		m.Set(i, i, 1)
	}
	return m
}

// Singular reports whether a square matrix is singular.
func (m Matrix) Singular() bool {
	_, ok := m.Solve(NewMatrix(m.R, 1))
	return !ok
}

// Rank returns the rank of m.
func (m Matrix) Rank() int {
	a := m.Clone()
	rank := 0
	for col := 0; col < a.C && rank < a.R; col++ {
		p := -1
		for r := rank; r < a.R; r++ {
			if a.At(r, col) != 0 {
				p = r
				break
			}
		}
		if p < 0 {
			continue
		}
		for j := 0; j < a.C; j++ {
			a.E[p*a.C+j], a.E[rank*a.C+j] = a.E[rank*a.C+j], a.E[p*a.C+j]
		}
		inv := Inv(a.At(rank, col))
		for r := rank + 1; r < a.R; r++ {
			f := Mul(a.At(r, col), inv)
			if f == 0 {
				continue
			}
			for j := 0; j < a.C; j++ {
				a.E[r*a.C+j] ^= Mul(f, a.E[rank*a.C+j])
			}
		}
		rank++
	}
	return rank
}
