// Package gf8 is an independent GF(2^8) modulo 0x11D (x^8+x^4+x^3+x^2+1),
// the field of PAR 1.0. Shares no code with gopar or klauspost/reedsolomon.
package gf8

// Mul is the carry-less product reduced modulo 0x11D.
func Mul(a, b byte) byte {
	var acc uint16
	for i := uint(0); i < 8; i++ {
		if b&(1<<i) != 0 {
			acc ^= uint16(a) << i
		}
	}
	for d := 14; d >= 8; d-- {
		if acc&(1<<uint(d)) != 0 {
			acc ^= 0x11D << uint(d-8)
		}
	}
	return byte(acc)
}

// Pow is a^p with 0^0 = 1.
func Pow(a byte, p int) byte {
	r := byte(1)
	for i := 0; i < p; i++ {
		r = Mul(r, a)
	}
	return r
}

// Inv is the inverse by exhaustive search.
func Inv(a byte) byte {
	for b := 1; b < 256; b++ {
		if Mul(a, byte(b)) == 1 {
			return byte(b)
		}
	}
	panic("gf8: no inverse")
}

// Singular reports whether the square matrix m (row major, n x n) is
// singular, by Gaussian elimination.
func Singular(m [][]byte) bool {
	n := len(m)
	a := make([][]byte, n)
	for i := range m {
		a[i] = append([]byte(nil), m[i]...)
	}
	for col := 0; col < n; col++ {
		p := -1
		for r := col; r < n; r++ {
			if a[r][col] != 0 {
				p = r
				break
			}
		}
		if p < 0 {
			return true
		}
		a[p], a[col] = a[col], a[p]
		inv := Inv(a[col][col])
		for j := range a[col] {
			a[col][j] = Mul(a[col][j], inv)
		}
		for r := 0; r < n; r++ {
			if r != col && a[r][col] != 0 {
				f := a[r][col]
				for j := range a[r] {
					a[r][j] ^= Mul(f, a[col][j])
				}
			}
		}
	}
	return false
}
