// Package par1rw is an independent reader and writer for the PAR 1.0
// format, written from the specification. Shares no code with gopar.
package par1rw

import (
	"crypto/md5"
	"encoding/binary"
	"fmt"
	"unicode/utf16"

	"verifharness/internal/ref/gf8"
)

// Entry is one file list entry.
type Entry struct {
	Status  uint64 // bit 0: saved in the parity volume set
	Size    uint64
	Hash    [16]byte
	Hash16k [16]byte
	Name    string
	// raw fields as read
	EntryBytes uint64
}

// Saved reports bit 0 of the status.
func (e Entry) Saved() bool { return e.Status&1 != 0 }

// Volume is a parsed PAR/Pxx file.
type Volume struct {
	Version      uint64
	ControlHash  [16]byte
	SetHash      [16]byte
	VolumeNumber uint64
	FileCount    uint64
	ListOffset   uint64
	ListSize     uint64
	DataOffset   uint64
	DataSize     uint64
	Entries      []Entry
	Data         []byte
}

// Hash16k is the MD5 of the first 16 KiB.
func Hash16k(data []byte) [16]byte {
	if len(data) > 16384 {
		return md5.Sum(data[:16384])
	}
	return md5.Sum(data)
}

// EncodeName converts to UTF-16LE (surrogate pairs for non-BMP).
func EncodeName(s string) []byte {
	u := utf16.Encode([]rune(s))
	b := make([]byte, 2*len(u))
	for i, c := range u {
		binary.LittleEndian.PutUint16(b[2*i:], c)
	}
	return b
}

// DecodeName converts from UTF-16LE.
func DecodeName(b []byte) string {
	u := make([]uint16, len(b)/2)
	for i := range u {
		u[i] = binary.LittleEndian.Uint16(b[2*i:])
	}
	return string(utf16.Decode(u))
}

// Parse parses and validates one volume strictly against the layout.
func Parse(b []byte) (*Volume, []string) {
	var problems []string
	bad := func(f string, a ...interface{}) { problems = append(problems, fmt.Sprintf(f, a...)) }
	if len(b) < 0x60 {
		return nil, []string{fmt.Sprintf("file of %d bytes is shorter than the 96-byte header", len(b))}
	}
	if string(b[:8]) != "PAR\x00\x00\x00\x00\x00" {
		bad("bad identification string %q", b[:8])
	}
	v := &Volume{}
	v.Version = binary.LittleEndian.Uint64(b[8:])
	if uint32(v.Version) != 0x00010000 {
		bad("version %#x, expected 0x00010000 in the low 32 bits", v.Version)
	}
	copy(v.ControlHash[:], b[0x10:])
	copy(v.SetHash[:], b[0x20:])
	v.VolumeNumber = binary.LittleEndian.Uint64(b[0x30:])
	v.FileCount = binary.LittleEndian.Uint64(b[0x38:])
	v.ListOffset = binary.LittleEndian.Uint64(b[0x40:])
	v.ListSize = binary.LittleEndian.Uint64(b[0x48:])
	v.DataOffset = binary.LittleEndian.Uint64(b[0x50:])
	v.DataSize = binary.LittleEndian.Uint64(b[0x58:])
	if md5.Sum(b[0x20:]) != v.ControlHash {
		bad("control hash is not the MD5 of the file from offset 0x20")
	}
	if v.ListOffset != 0x60 {
		bad("file list offset %#x, expected 0x60", v.ListOffset)
	}
	if v.ListOffset+v.ListSize != v.DataOffset {
		bad("data offset %#x != list offset + list size %#x", v.DataOffset, v.ListOffset+v.ListSize)
	}
	if v.DataOffset+v.DataSize != uint64(len(b)) {
		bad("data offset+size = %d, file length %d", v.DataOffset+v.DataSize, len(b))
	}
	off := uint64(0x60)
	var setIn []byte
	for i := uint64(0); i < v.FileCount; i++ {
		if off+0x38 > uint64(len(b)) {
			bad("entry %d runs past the end of the file", i)
			return v, problems
		}
		var e Entry
		e.EntryBytes = binary.LittleEndian.Uint64(b[off:])
		e.Status = binary.LittleEndian.Uint64(b[off+8:])
		e.Size = binary.LittleEndian.Uint64(b[off+0x10:])
		copy(e.Hash[:], b[off+0x18:])
		copy(e.Hash16k[:], b[off+0x28:])
		if e.EntryBytes < 0x38+2 || e.EntryBytes%2 != 0 || e.EntryBytes > uint64(len(b)) || off+e.EntryBytes > uint64(len(b)) {
			bad("entry %d has size %d", i, e.EntryBytes)
			return v, problems
		}
		e.Name = DecodeName(b[off+0x38 : off+e.EntryBytes])
		v.Entries = append(v.Entries, e)
		if e.Saved() {
			setIn = append(setIn, e.Hash[:]...)
		}
		off += e.EntryBytes
	}
	if off != v.ListOffset+v.ListSize {
		bad("entries end at %#x, list offset+size = %#x", off, v.ListOffset+v.ListSize)
	}
	if md5.Sum(setIn) != v.SetHash {
		bad("set hash is not the MD5 of the saved files' hashes in list order")
	}
	if v.DataOffset <= uint64(len(b)) {
		v.Data = b[v.DataOffset:]
	}
	return v, problems
}

// InFile is an input file.
type InFile struct {
	Name  string
	Data  []byte
	Saved bool
	// ExtraStatus is OR-ed into the status field (bit 1 = "checked
	// successfully"; other bits are unassigned and must be ignored).
	ExtraStatus uint64
}

// Parity computes parity volume v (1-based): sum over saved files i
// (numbered from 1) of i^(v-1) * file_i, zero padded to the longest.
func Parity(files []InFile, v int) []byte {
	maxLen := 0
	for _, f := range files {
		if f.Saved && len(f.Data) > maxLen {
			maxLen = len(f.Data)
		}
	}
	out := make([]byte, maxLen)
	idx := 0
	for _, f := range files {
		if !f.Saved {
			continue
		}
		idx++
		c := gf8.Pow(byte(idx), v-1)
		for k, x := range f.Data {
			out[k] ^= gf8.Mul(c, x)
		}
	}
	return out
}

// Build serialises a volume (number 0 = index with comment as data).
func Build(files []InFile, volume int, data []byte, version uint64) []byte {
	var list []byte
	var setIn []byte
	for _, f := range files {
		name := EncodeName(f.Name)
		e := make([]byte, 0x38)
		binary.LittleEndian.PutUint64(e[0:], uint64(0x38+len(name)))
		st := uint64(0)
		if f.Saved {
			st = 1
		}
		st |= f.ExtraStatus &^ 1
		binary.LittleEndian.PutUint64(e[8:], st)
		binary.LittleEndian.PutUint64(e[0x10:], uint64(len(f.Data)))
		h := md5.Sum(f.Data)
		copy(e[0x18:], h[:])
		h16 := Hash16k(f.Data)
		copy(e[0x28:], h16[:])
		list = append(list, e...)
		list = append(list, name...)
		if f.Saved {
			setIn = append(setIn, h[:]...)
		}
	}
	hdr := make([]byte, 0x60)
	copy(hdr, "PAR\x00\x00\x00\x00\x00")
	binary.LittleEndian.PutUint64(hdr[8:], version)
	sh := md5.Sum(setIn)
	copy(hdr[0x20:], sh[:])
	binary.LittleEndian.PutUint64(hdr[0x30:], uint64(volume))
	binary.LittleEndian.PutUint64(hdr[0x38:], uint64(len(files)))
	binary.LittleEndian.PutUint64(hdr[0x40:], 0x60)
	binary.LittleEndian.PutUint64(hdr[0x48:], uint64(len(list)))
	binary.LittleEndian.PutUint64(hdr[0x50:], uint64(0x60+len(list)))
	binary.LittleEndian.PutUint64(hdr[0x58:], uint64(len(data)))
	out := append(hdr, list...)
	out = append(out, data...)
	ch := md5.Sum(out[0x20:])
	copy(out[0x10:], ch[:])
	return out
}

// Rehash recomputes the control hash of a (mutated) volume in place.
func Rehash(b []byte) {
	if len(b) >= 0x20 {
		ch := md5.Sum(b[0x20:])
		copy(b[0x10:], ch[:])
	}
}

// ForcedSingular reports whether PAR1 recovery of the given missing
// saved-file indices (0-based among saved files) from the given parity
// volumes (1-based numbers, the ones that will be used) is singular:
// matrix rows = volumes, columns = missing files, element (i+1)^(v-1).
func ForcedSingular(missing []int, volumes []int) bool {
	k := len(missing)
	if k == 0 {
		return false
	}
	m := make([][]byte, k)
	for r := 0; r < k; r++ {
		m[r] = make([]byte, k)
		for c := 0; c < k; c++ {
			m[r][c] = gf8.Pow(byte(missing[c]+1), volumes[r]-1)
		}
	}
	return gf8.Singular(m)
}
