// Package par2rw is an independent reader and writer for the PAR 2.0
// format, written from the specification. It shares no code with gopar.
package par2rw

import (
	"bytes"
	"crypto/md5"
	"encoding/binary"
	"errors"
	"fmt"
	"hash/crc32"
	"sort"

	"verifharness/internal/ref/gf16"
)

// Magic is the packet magic.
var Magic = []byte{'P', 'A', 'R', '2', 0, 'P', 'K', 'T'}

// Packet types.
var (
	TypeMain     = mkType("PAR 2.0\x00Main\x00\x00\x00\x00")
	TypeFileDesc = mkType("PAR 2.0\x00FileDesc")
	TypeIFSC     = mkType("PAR 2.0\x00IFSC\x00\x00\x00\x00")
	TypeRecv     = mkType("PAR 2.0\x00RecvSlic")
	TypeCreator  = mkType("PAR 2.0\x00Creator\x00")
)

func mkType(s string) [16]byte {
	var t [16]byte
	if len(s) != 16 {
		panic("bad type literal " + s)
	}
	copy(t[:], s)
	return t
}

// Packet is one PAR2 packet.
type Packet struct {
	SetID [16]byte
	Type  [16]byte
	Body  []byte
	// Offset of the packet in the file it was parsed from.
	Offset int
	// HeaderLen, if non-zero, is written into the length field instead of
	// the true length (the packet MD5 does not cover that field).
	HeaderLen uint64
}

// Bytes serialises the packet with a correct length (or HeaderLen) and MD5.
func (p Packet) Bytes() []byte {
	if p.HeaderLen != 0 {
		return p.BytesWith(p.HeaderLen, nil)
	}
	return p.BytesWith(uint64(64+len(p.Body)), nil)
}

// BytesWith serialises with an explicit length field and, if md5sum
// is non-nil, an explicit hash.
func (p Packet) BytesWith(length uint64, md5sum *[16]byte) []byte {
	var b bytes.Buffer
	b.Write(Magic)
	var l [8]byte
	binary.LittleEndian.PutUint64(l[:], length)
	b.Write(l[:])
	h := PacketHash(p.SetID, p.Type, p.Body)
	if md5sum != nil {
		h = *md5sum
	}
	b.Write(h[:])
	b.Write(p.SetID[:])
	b.Write(p.Type[:])
	b.Write(p.Body)
	return b.Bytes()
}

// PacketHash is the MD5 over set ID, type and body.
func PacketHash(setID, typ [16]byte, body []byte) [16]byte {
	h := md5.New()
	h.Write(setID[:])
	h.Write(typ[:])
	h.Write(body)
	var out [16]byte
	copy(out[:], h.Sum(nil))
	return out
}

// ParseStrict parses a byte stream that must consist of nothing but
// well-formed packets.
func ParseStrict(b []byte) ([]Packet, error) {
	var out []Packet
	off := 0
	for off < len(b) {
		if len(b)-off < 64 {
			return out, fmt.Errorf("offset %d: %d trailing bytes, too short for a packet header", off, len(b)-off)
		}
		if !bytes.Equal(b[off:off+8], Magic) {
			return out, fmt.Errorf("offset %d: bad magic %q", off, b[off:off+8])
		}
		l := binary.LittleEndian.Uint64(b[off+8:])
		if l < 64 || l%4 != 0 {
			return out, fmt.Errorf("offset %d: invalid packet length %d", off, l)
		}
		if l > uint64(len(b)-off) {
			return out, fmt.Errorf("offset %d: packet length %d exceeds remaining %d bytes", off, l, len(b)-off)
		}
		var p Packet
		p.Offset = off
		var h [16]byte
		copy(h[:], b[off+16:])
		copy(p.SetID[:], b[off+32:])
		copy(p.Type[:], b[off+48:])
		p.Body = append([]byte(nil), b[off+64:off+int(l)]...)
		if PacketHash(p.SetID, p.Type, p.Body) != h {
			return out, fmt.Errorf("offset %d: packet MD5 mismatch (type %q)", off, p.Type)
		}
		out = append(out, p)
		off += int(l)
	}
	return out, nil
}

// ParseLenient scans for valid packets, skipping damaged regions, as a
// recovering reader would.
func ParseLenient(b []byte) []Packet {
	var out []Packet
	off := 0
	for off+64 <= len(b) {
		i := bytes.Index(b[off:], Magic)
		if i < 0 {
			break
		}
		off += i
		if off+64 > len(b) {
			break
		}
		l := binary.LittleEndian.Uint64(b[off+8:])
		if l < 64 || l%4 != 0 || l > uint64(len(b)-off) {
			off++
			continue
		}
		var p Packet
		p.Offset = off
		var h [16]byte
		copy(h[:], b[off+16:])
		copy(p.SetID[:], b[off+32:])
		copy(p.Type[:], b[off+48:])
		body := b[off+64 : off+int(l)]
		if PacketHash(p.SetID, p.Type, body) != h {
			off++
			continue
		}
		p.Body = append([]byte(nil), body...)
		out = append(out, p)
		off += int(l)
	}
	return out
}

// ---------------------------------------------------------------------
// Packet bodies.

// Main is a decoded main packet.
type Main struct {
	SliceSize uint64
	NRecovery uint32
	IDs       [][16]byte // recovery set first, then non-recovery set
}

// Body serialises a main packet body.
func (m Main) Body() []byte {
	var b bytes.Buffer
	var u8 [8]byte
	binary.LittleEndian.PutUint64(u8[:], m.SliceSize)
	b.Write(u8[:])
	var u4 [4]byte
	binary.LittleEndian.PutUint32(u4[:], m.NRecovery)
	b.Write(u4[:])
	for _, id := range m.IDs {
		b.Write(id[:])
	}
	return b.Bytes()
}

// DecodeMain decodes a main packet body.
func DecodeMain(body []byte) (Main, error) {
	if len(body) < 12 || (len(body)-12)%16 != 0 {
		return Main{}, fmt.Errorf("main packet body length %d", len(body))
	}
	var m Main
	m.SliceSize = binary.LittleEndian.Uint64(body)
	m.NRecovery = binary.LittleEndian.Uint32(body[8:])
	for off := 12; off < len(body); off += 16 {
		var id [16]byte
		copy(id[:], body[off:])
		m.IDs = append(m.IDs, id)
	}
	if uint64(m.NRecovery) > uint64(len(m.IDs)) {
		return m, errors.New("main packet: recovery count exceeds id list")
	}
	return m, nil
}

// FileDesc is a decoded file description packet.
type FileDesc struct {
	ID      [16]byte
	Hash    [16]byte
	Hash16k [16]byte
	Length  uint64
	RawName []byte // as stored, including NUL padding
}

// Name returns the name up to the first NUL.
func (f FileDesc) Name() string {
	if i := bytes.IndexByte(f.RawName, 0); i >= 0 {
		return string(f.RawName[:i])
	}
	return string(f.RawName)
}

// Body serialises a file description body.
func (f FileDesc) Body() []byte {
	var b bytes.Buffer
	b.Write(f.ID[:])
	b.Write(f.Hash[:])
	b.Write(f.Hash16k[:])
	var u8 [8]byte
	binary.LittleEndian.PutUint64(u8[:], f.Length)
	b.Write(u8[:])
	b.Write(f.RawName)
	return b.Bytes()
}

// DecodeFileDesc decodes a file description body.
func DecodeFileDesc(body []byte) (FileDesc, error) {
	if len(body) < 56 {
		return FileDesc{}, fmt.Errorf("file description body length %d", len(body))
	}
	var f FileDesc
	copy(f.ID[:], body)
	copy(f.Hash[:], body[16:])
	copy(f.Hash16k[:], body[32:])
	f.Length = binary.LittleEndian.Uint64(body[48:])
	f.RawName = append([]byte(nil), body[56:]...)
	return f, nil
}

// FileID computes the file ID: MD5(16k hash, length, name without
// padding).
func FileID(hash16k [16]byte, length uint64, name []byte) [16]byte {
	h := md5.New()
	h.Write(hash16k[:])
	var u8 [8]byte
	binary.LittleEndian.PutUint64(u8[:], length)
	h.Write(u8[:])
	h.Write(name)
	var out [16]byte
	copy(out[:], h.Sum(nil))
	return out
}

// IFSC is a decoded input file slice checksum packet.
type IFSC struct {
	ID    [16]byte
	Pairs []Pair
}

// Pair is one slice checksum.
type Pair struct {
	MD5 [16]byte
	CRC uint32
}

// Body serialises.
func (c IFSC) Body() []byte {
	var b bytes.Buffer
	b.Write(c.ID[:])
	for _, p := range c.Pairs {
		b.Write(p.MD5[:])
		var u4 [4]byte
		binary.LittleEndian.PutUint32(u4[:], p.CRC)
		b.Write(u4[:])
	}
	return b.Bytes()
}

// DecodeIFSC decodes.
func DecodeIFSC(body []byte) (IFSC, error) {
	if len(body) < 16 || (len(body)-16)%20 != 0 {
		return IFSC{}, fmt.Errorf("IFSC body length %d", len(body))
	}
	var c IFSC
	copy(c.ID[:], body)
	for off := 16; off < len(body); off += 20 {
		var p Pair
		copy(p.MD5[:], body[off:])
		p.CRC = binary.LittleEndian.Uint32(body[off+16:])
		c.Pairs = append(c.Pairs, p)
	}
	return c, nil
}

// Recv is a decoded recovery slice packet.
type Recv struct {
	Exp  uint32
	Data []byte
}

// Body serialises.
func (r Recv) Body() []byte {
	b := make([]byte, 4, 4+len(r.Data))
	binary.LittleEndian.PutUint32(b, r.Exp)
	return append(b, r.Data...)
}

// DecodeRecv decodes.
func DecodeRecv(body []byte) (Recv, error) {
	if len(body) < 4 {
		return Recv{}, errors.New("recovery body too short")
	}
	return Recv{binary.LittleEndian.Uint32(body), append([]byte(nil), body[4:]...)}, nil
}

// PadName pads an ASCII name with 0..3 NULs to a multiple of 4.
func PadName(name string) []byte {
	b := []byte(name)
	for len(b)%4 != 0 {
		b = append(b, 0)
	}
	return b
}

// IDLess orders file IDs as 128-bit little-endian integers.
func IDLess(a, b [16]byte) bool {
	for i := 15; i >= 0; i-- {
		if a[i] != b[i] {
			return a[i] < b[i]
		}
	}
	return false
}

// Hash16k is the MD5 of the first 16 KiB.
func Hash16k(data []byte) [16]byte {
	if len(data) > 16384 {
		return md5.Sum(data[:16384])
	}
	return md5.Sum(data)
}

// ---------------------------------------------------------------------
// Reference set builder.

// InFile is an input file of a set.
type InFile struct {
	Name string
	Data []byte
}

// RefFile is the per-file derived data.
type RefFile struct {
	InFile
	ID     [16]byte
	Desc   FileDesc
	IFSC   IFSC
	Slices [][]byte // zero padded
}

// RefSet is a PAR2 set computed by the reference.
type RefSet struct {
	SliceSize int
	Files     []RefFile // in main-packet (sorted ID) order
	Main      Main
	SetID     [16]byte
	consts    []uint16
}

// BuildSet derives all packets of a set from its input files.
func BuildSet(sliceSize int, files []InFile) *RefSet {
	s := &RefSet{SliceSize: sliceSize}
	for _, f := range files {
		var rf RefFile
		rf.InFile = f
		h16 := Hash16k(f.Data)
		rf.ID = FileID(h16, uint64(len(f.Data)), []byte(f.Name))
		rf.Desc = FileDesc{ID: rf.ID, Hash: md5.Sum(f.Data), Hash16k: h16, Length: uint64(len(f.Data)), RawName: PadName(f.Name)}
		rf.IFSC.ID = rf.ID
		for off := 0; off < len(f.Data); off += sliceSize {
			sl := make([]byte, sliceSize)
			copy(sl, f.Data[off:])
			rf.Slices = append(rf.Slices, sl)
			rf.IFSC.Pairs = append(rf.IFSC.Pairs, Pair{md5.Sum(sl), crc32.ChecksumIEEE(sl)})
		}
		s.Files = append(s.Files, rf)
	}
	sort.SliceStable(s.Files, func(i, j int) bool { return IDLess(s.Files[i].ID, s.Files[j].ID) })
	s.Main.SliceSize = uint64(sliceSize)
	s.Main.NRecovery = uint32(len(s.Files))
	for _, f := range s.Files {
		s.Main.IDs = append(s.Main.IDs, f.ID)
	}
	s.SetID = md5.Sum(s.Main.Body())
	return s
}

// AllSlices lists the input slices in recovery order.
func (s *RefSet) AllSlices() [][]byte {
	var out [][]byte
	for _, f := range s.Files {
		out = append(out, f.Slices...)
	}
	return out
}

// Const returns the base constant of input slice i.
func (s *RefSet) Const(i int) uint16 {
	if s.consts == nil {
		s.consts = gf16.Par2Constants(32768)
	}
	return s.consts[i]
}

// RecoveryBlock computes recovery block e = sum_i slice_i * c_i^e on
// little-endian 16-bit words.
func (s *RefSet) RecoveryBlock(e uint32) []byte {
	out := make([]byte, s.SliceSize)
	var row [65536]uint16
	for i, sl := range s.AllSlices() {
		f := gf16.Pow(s.Const(i), uint64(e))
		if f == 0 {
			continue
		}
		if len(sl) >= 512 {
			gf16.Row(f, &row)
			for w := 0; w+1 < len(sl); w += 2 {
				x := row[uint16(sl[w])|uint16(sl[w+1])<<8]
				out[w] ^= byte(x)
				out[w+1] ^= byte(x >> 8)
			}
		} else {
			for w := 0; w+1 < len(sl); w += 2 {
				x := gf16.Mul(f, uint16(sl[w])|uint16(sl[w+1])<<8)
				out[w] ^= byte(x)
				out[w+1] ^= byte(x >> 8)
			}
		}
	}
	return out
}

// MainPacket returns the main packet.
func (s *RefSet) MainPacket() Packet { return Packet{SetID: s.SetID, Type: TypeMain, Body: s.Main.Body()} }

// CreatorPacket returns a creator packet.
func (s *RefSet) CreatorPacket(text string) Packet {
	return Packet{SetID: s.SetID, Type: TypeCreator, Body: PadName(text)}
}

// DescPacket returns the file description packet of file i.
func (s *RefSet) DescPacket(i int) Packet {
	return Packet{SetID: s.SetID, Type: TypeFileDesc, Body: s.Files[i].Desc.Body()}
}

// IFSCPacket returns the checksum packet of file i.
func (s *RefSet) IFSCPacket(i int) Packet {
	return Packet{SetID: s.SetID, Type: TypeIFSC, Body: s.Files[i].IFSC.Body()}
}

// RecvPacket returns the recovery packet for exponent e.
func (s *RefSet) RecvPacket(e uint32) Packet {
	return Packet{SetID: s.SetID, Type: TypeRecv, Body: Recv{e, s.RecoveryBlock(e)}.Body()}
}

// Critical returns main + all description + all checksum packets.
func (s *RefSet) Critical() []Packet {
	out := []Packet{s.MainPacket()}
	for i := range s.Files {
		out = append(out, s.DescPacket(i), s.IFSCPacket(i))
	}
	return out
}

// Serialize concatenates packets.
func Serialize(ps []Packet) []byte {
	var b bytes.Buffer
	for _, p := range ps {
		b.Write(p.Bytes())
	}
	return b.Bytes()
}

// ---------------------------------------------------------------------
// Validation of a created set (C05).

// CreatedFile is one file written by Create.
type CreatedFile struct {
	Name string
	Data []byte
}

// ValidateCreated checks every file written by a creator against the
// specification and the inputs. index is the name of the index file.
// It returns a list of problems (empty = conformant) and the number of
// recovery blocks verified.
func ValidateCreated(sliceSize int, inputs []InFile, nBlocks int, index string, files []CreatedFile, checkBlocks bool) (problems []string, blocksChecked int) {
	ref := BuildSet(sliceSize, inputs)
	bad := func(format string, a ...interface{}) {
		if len(problems) < 30 {
			problems = append(problems, fmt.Sprintf(format, a...))
		}
	}
	expCount := map[uint32]int{}
	sawIndex := false
	for _, cf := range files {
		pkts, err := ParseStrict(cf.Data)
		if err != nil {
			bad("%s: not a well-formed packet stream: %v", cf.Name, err)
			continue
		}
		if len(pkts) == 0 {
			bad("%s: no packets", cf.Name)
			continue
		}
		var nMain, nCreator, nRecv int
		descSeen := map[[16]byte]int{}
		ifscSeen := map[[16]byte]int{}
		for _, p := range pkts {
			if p.SetID != ref.SetID {
				bad("%s: packet at %d has set ID %x, expected MD5(main body) = %x", cf.Name, p.Offset, p.SetID, ref.SetID)
				continue
			}
			switch p.Type {
			case TypeMain:
				nMain++
				if !bytes.Equal(p.Body, ref.Main.Body()) {
					m, _ := DecodeMain(p.Body)
					bad("%s: main packet differs from reference (slice size %d vs %d, %d ids vs %d; order must be ascending 128-bit little-endian)", cf.Name, m.SliceSize, sliceSize, len(m.IDs), len(ref.Main.IDs))
				}
			case TypeFileDesc:
				d, err := DecodeFileDesc(p.Body)
				if err != nil {
					bad("%s: %v", cf.Name, err)
					continue
				}
				descSeen[d.ID]++
				found := false
				for _, rf := range ref.Files {
					if rf.ID == d.ID {
						found = true
						if d.Hash != rf.Desc.Hash || d.Hash16k != rf.Desc.Hash16k || d.Length != rf.Desc.Length {
							bad("%s: file description for %q has wrong hash/16k-hash/length", cf.Name, rf.Name)
						}
						if d.Name() != rf.Name {
							bad("%s: file description name %q, expected %q", cf.Name, d.Name(), rf.Name)
						}
						if len(d.RawName)%4 != 0 {
							bad("%s: name field of %q not padded to a multiple of 4", cf.Name, rf.Name)
						}
					}
				}
				if !found {
					bad("%s: file description with ID %x matches no input file (ID must be MD5(16k-hash, length, name))", cf.Name, d.ID)
				}
			case TypeIFSC:
				c, err := DecodeIFSC(p.Body)
				if err != nil {
					bad("%s: %v", cf.Name, err)
					continue
				}
				ifscSeen[c.ID]++
				for _, rf := range ref.Files {
					if rf.ID == c.ID {
						if len(c.Pairs) != len(rf.IFSC.Pairs) {
							bad("%s: %q has %d slice checksums, expected %d", cf.Name, rf.Name, len(c.Pairs), len(rf.IFSC.Pairs))
							continue
						}
						for i := range c.Pairs {
							if c.Pairs[i] != rf.IFSC.Pairs[i] {
								bad("%s: %q slice %d checksum (MD5/CRC32 of the zero-padded slice) wrong", cf.Name, rf.Name, i)
								break
							}
						}
					}
				}
			case TypeRecv:
				nRecv++
				rv, err := DecodeRecv(p.Body)
				if err != nil {
					bad("%s: %v", cf.Name, err)
					continue
				}
				expCount[rv.Exp]++
				if len(rv.Data) != sliceSize {
					bad("%s: recovery block %d has %d bytes, slice size %d", cf.Name, rv.Exp, len(rv.Data), sliceSize)
					continue
				}
				if checkBlocks {
					if want := ref.RecoveryBlock(rv.Exp); !bytes.Equal(want, rv.Data) {
						bad("%s: recovery block %d != sum slice_i*c_i^%d (first difference at byte %d)", cf.Name, rv.Exp, rv.Exp, firstDiff(want, rv.Data))
					}
					blocksChecked++
				}
			case TypeCreator:
				nCreator++
			default:
				bad("%s: unexpected packet type %q", cf.Name, p.Type)
			}
		}
		if nCreator == 0 {
			bad("%s: no creator packet", cf.Name)
		}
		if nMain == 0 {
			bad("%s: no main packet", cf.Name)
		}
		for _, rf := range ref.Files {
			if descSeen[rf.ID] == 0 {
				bad("%s: no file description packet for %q", cf.Name, rf.Name)
			}
			if ifscSeen[rf.ID] == 0 {
				bad("%s: no slice checksum packet for %q", cf.Name, rf.Name)
			}
		}
		if cf.Name == index {
			sawIndex = true
			if nRecv != 0 {
				bad("%s: index file contains %d recovery packets", cf.Name, nRecv)
			}
		}
	}
	if !sawIndex {
		bad("index file %s was not written", index)
	}
	for e := 0; e < nBlocks; e++ {
		if expCount[uint32(e)] != 1 {
			bad("recovery block %d appears %d times across the recovery files (expected exactly once)", e, expCount[uint32(e)])
		}
	}
	for e, n := range expCount {
		if int(e) >= nBlocks {
			bad("unexpected recovery block exponent %d (x%d)", e, n)
		}
	}
	return
}

func firstDiff(a, b []byte) int {
	for i := range a {
		if i >= len(b) || a[i] != b[i] {
			return i
		}
	}
	return -1
}
