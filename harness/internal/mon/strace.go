package mon

import (
	"bufio"
	"fmt"
	"os"
	"os/exec"
	"path/filepath"
	"strconv"
	"strings"
	"syscall"
)

// FSEvent is one file-system effect observed through strace.
type FSEvent struct {
	Seq     int    `json:"seq"`
	Call    string `json:"call"`
	Path    string `json:"path"`            // absolute, cleaned
	Path2   string `json:"path2,omitempty"` // rename/link target
	Flags   string `json:"flags,omitempty"`
	Ret     string `json:"ret"`
	Mutates bool   `json:"mutates"`
	OK      bool   `json:"ok"`
}

// TraceResult is the outcome of a traced process.
type TraceResult struct {
	Exit     int
	Signal   string
	Output   string
	Events   []FSEvent
	RawLines int
	Err      error
}

const straceSyscalls = "openat,open,creat,unlink,unlinkat,rename,renameat,renameat2,mkdir,mkdirat,rmdir,link,linkat,symlink,symlinkat,truncate,ftruncate,chmod,fchmodat,chown,fchownat,lchown,utimensat,mknod,mknodat"

// Trace runs argv under strace in dir and returns the file events.
// inject, if non-empty, is passed as additional strace arguments (e.g.
// "-e", "inject=openat:error=EIO:when=3").
func Trace(dir string, argv []string, inject []string) TraceResult {
	tmp, err := os.CreateTemp("", "strace-*.log")
	if err != nil {
		return TraceResult{Err: err}
	}
	tmp.Close()
	defer os.Remove(tmp.Name())
	args := []string{"-f", "-qq", "-s", "4096", "-e", "signal=none", "-e", "trace=" + straceSyscalls, "-o", tmp.Name()}
	args = append(args, inject...)
	args = append(args, argv...)
	cmd := exec.Command("strace", args...)
	cmd.Dir = dir
	out, err := cmd.CombinedOutput()
	res := TraceResult{Output: string(out)}
	if err != nil {
		if ee, ok := err.(*exec.ExitError); ok {
			ws := ee.Sys().(syscall.WaitStatus)
			if ws.Signaled() {
				res.Signal = ws.Signal().String()
				res.Exit = 128 + int(ws.Signal())
			} else {
				res.Exit = ws.ExitStatus()
			}
		} else {
			res.Err = err
			return res
		}
	}
	f, err := os.Open(tmp.Name())
	if err != nil {
		res.Err = err
		return res
	}
	defer f.Close()
	sc := bufio.NewScanner(f)
	sc.Buffer(make([]byte, 1<<20), 16<<20)
	seq := 0
	pending := map[string]string{} // pid -> unfinished line
	for sc.Scan() {
		line := sc.Text()
		res.RawLines++
		// "1234 openat(...) = 3" ; with -f the pid prefix is present
		pid := ""
		if i := strings.IndexByte(line, ' '); i > 0 {
			if _, err := strconv.Atoi(line[:i]); err == nil {
				pid = line[:i]
				line = strings.TrimSpace(line[i+1:])
			}
		}
		if strings.HasSuffix(line, "<unfinished ...>") {
			pending[pid] = strings.TrimSuffix(line, "<unfinished ...>")
			continue
		}
		if strings.HasPrefix(line, "<... ") {
			if j := strings.Index(line, "resumed>"); j >= 0 {
				line = pending[pid] + line[j+len("resumed>"):]
				delete(pending, pid)
			}
		}
		ev, ok := parseStraceLine(line, dir)
		if !ok {
			continue
		}
		ev.Seq = seq
		seq++
		res.Events = append(res.Events, ev)
	}
	return res
}

// parseArgs splits the argument list of a strace line, honouring quoted
// strings, and returns the args and the return text.
func splitCall(line string) (name string, args []string, ret string, ok bool) {
	i := strings.IndexByte(line, '(')
	if i <= 0 {
		return
	}
	name = line[:i]
	rest := line[i+1:]
	var cur strings.Builder
	inStr := false
	depth := 0
	j := 0
	for j < len(rest) {
		ch := rest[j]
		if inStr {
			cur.WriteByte(ch)
			if ch == '\\' && j+1 < len(rest) {
				cur.WriteByte(rest[j+1])
				j += 2
				continue
			}
			if ch == '"' {
				inStr = false
			}
			j++
			continue
		}
		switch ch {
		case '"':
			inStr = true
			cur.WriteByte(ch)
		case '(', '[', '{':
			depth++
			cur.WriteByte(ch)
		case ']', '}':
			depth--
			cur.WriteByte(ch)
		case ')':
			if depth == 0 {
				args = append(args, strings.TrimSpace(cur.String()))
				ret = strings.TrimSpace(rest[j+1:])
				ret = strings.TrimPrefix(ret, "=")
				ret = strings.TrimSpace(ret)
				return name, args, ret, true
			}
			depth--
			cur.WriteByte(ch)
		case ',':
			if depth == 0 {
				args = append(args, strings.TrimSpace(cur.String()))
				cur.Reset()
			} else {
				cur.WriteByte(ch)
			}
		default:
			cur.WriteByte(ch)
		}
		j++
	}
	return
}

func unquote(s string) (string, bool) {
	s = strings.TrimSpace(s)
	s = strings.TrimSuffix(s, "...")
	if len(s) < 2 || s[0] != '"' {
		return "", false
	}
	// strace uses C escapes incl. octal \NNN
	var b []byte
	for i := 1; i < len(s)-1; i++ {
		c := s[i]
		if c != '\\' {
			b = append(b, c)
			continue
		}
		i++
		if i >= len(s)-1 {
			break
		}
		switch s[i] {
		case 'n':
			b = append(b, '\n')
		case 't':
			b = append(b, '\t')
		case 'r':
			b = append(b, '\r')
		case 'v':
			b = append(b, '\v')
		case 'f':
			b = append(b, '\f')
		case '\\', '"':
			b = append(b, s[i])
		case 'x':
			if i+2 < len(s) {
				v, _ := strconv.ParseUint(s[i+1:i+3], 16, 8)
				b = append(b, byte(v))
				i += 2
			}
		default:
			// octal, 1-3 digits
			j := i
			for j < len(s)-1 && j < i+3 && s[j] >= '0' && s[j] <= '7' {
				j++
			}
			if j > i {
				v, _ := strconv.ParseUint(s[i:j], 8, 16)
				b = append(b, byte(v))
				i = j - 1
			} else {
				b = append(b, s[i])
			}
		}
	}
	return string(b), true
}

func absPath(cwd, p string) string {
	if !filepath.IsAbs(p) {
		p = filepath.Join(cwd, p)
	}
	return filepath.Clean(p)
}

func parseStraceLine(line, cwd string) (FSEvent, bool) {
	name, args, ret, ok := splitCall(line)
	if !ok {
		return FSEvent{}, false
	}
	ev := FSEvent{Call: name, Ret: ret}
	ev.OK = !strings.HasPrefix(ret, "-1")
	pathArg := func(i int) string {
		if i < len(args) {
			if p, ok := unquote(args[i]); ok {
				return absPath(cwd, p)
			}
		}
		return ""
	}
	switch name {
	case "openat":
		ev.Path = pathArg(1)
		if len(args) > 2 {
			ev.Flags = args[2]
		}
	case "open":
		ev.Path = pathArg(0)
		if len(args) > 1 {
			ev.Flags = args[1]
		}
	case "creat":
		ev.Path = pathArg(0)
		ev.Flags = "O_CREAT|O_WRONLY|O_TRUNC"
	case "unlink", "rmdir", "mkdir", "truncate", "chmod", "chown", "lchown", "mknod":
		ev.Path = pathArg(0)
		ev.Mutates = true
	case "unlinkat", "mkdirat", "fchmodat", "fchownat", "utimensat", "mknodat":
		ev.Path = pathArg(1)
		ev.Mutates = true
		if name == "utimensat" && ev.Path == "" {
			return FSEvent{}, false
		}
	case "rename", "link", "symlink":
		ev.Path = pathArg(0)
		ev.Path2 = pathArg(1)
		ev.Mutates = true
		if name == "symlink" {
			ev.Path = pathArg(1)
			ev.Path2 = ""
		}
	case "renameat", "renameat2", "linkat":
		ev.Path = pathArg(1)
		ev.Path2 = pathArg(3)
		ev.Mutates = true
	case "symlinkat":
		ev.Path = pathArg(2)
		ev.Mutates = true
	case "ftruncate":
		ev.Path = fmt.Sprintf("fd:%s", strings.TrimSpace(args[0]))
		ev.Mutates = true
	default:
		return FSEvent{}, false
	}
	if ev.Flags != "" {
		for _, f := range []string{"O_WRONLY", "O_RDWR", "O_CREAT", "O_TRUNC", "O_APPEND"} {
			if strings.Contains(ev.Flags, f) {
				ev.Mutates = true
			}
		}
	}
	return ev, true
}

// Mutations filters the events that create, modify or delete.
func Mutations(evs []FSEvent) []FSEvent {
	var m []FSEvent
	for _, e := range evs {
		if e.Mutates {
			m = append(m, e)
		}
	}
	return m
}

// InjectResult extends TraceResult with injection accounting.
type InjectResult struct {
	TraceResult
	Injected      int
	InjectedCalls []string
}

// TraceInject runs argv under strace with one -e inject=... spec that is
// applied only to syscalls touching paths below onlyUnder (-P filter is
// not used because it also filters the trace; instead the injected
// calls are counted from the log and classified by path).
func TraceInject(dir string, argv []string, spec, onlyUnder string, extraPaths []string) InjectResult {
	tmp, err := os.CreateTemp("", "strace-inj-*.log")
	if err != nil {
		return InjectResult{TraceResult: TraceResult{Err: err}}
	}
	tmp.Close()
	defer os.Remove(tmp.Name())
	// -P restricts tracing (and therefore injection) to syscalls that
	// access the given paths: list the directory and every file in it.
	args := []string{"-f", "-qq", "-y", "-s", "4096", "-e", "signal=none", "-e", "trace=" + straceSyscalls + ",read,write,getdents64,fstat,newfstatat,close", "-e", spec, "-o", tmp.Name()}
	args = append(args, "-P", onlyUnder)
	filepath.Walk(onlyUnder, func(p string, info os.FileInfo, err error) error {
		if err == nil && p != onlyUnder {
			args = append(args, "-P", p)
		}
		return nil
	})
	// files that do not exist yet (to be created by the command)
	for _, extra := range extraPaths {
		args = append(args, "-P", extra)
	}
	args = append(args, argv...)
	cmd := exec.Command("strace", args...)
	cmd.Dir = dir
	out, err := cmd.CombinedOutput()
	res := InjectResult{}
	res.Output = string(out)
	if err != nil {
		if ee, ok := err.(*exec.ExitError); ok {
			ws := ee.Sys().(syscall.WaitStatus)
			if ws.Signaled() {
				res.Signal = ws.Signal().String()
				res.Exit = 128 + int(ws.Signal())
			} else {
				res.Exit = ws.ExitStatus()
			}
		} else {
			res.Err = err
			return res
		}
	}
	f, err := os.Open(tmp.Name())
	if err != nil {
		res.Err = err
		return res
	}
	defer f.Close()
	sc := bufio.NewScanner(f)
	sc.Buffer(make([]byte, 1<<20), 16<<20)
	seq := 0
	for sc.Scan() {
		line := sc.Text()
		res.RawLines++
		if i := strings.IndexByte(line, ' '); i > 0 {
			if _, err := strconv.Atoi(line[:i]); err == nil {
				line = strings.TrimSpace(line[i+1:])
			}
		}
		if strings.Contains(line, "(INJECTED)") {
			res.Injected++
			if len(res.InjectedCalls) < 6 {
				c := line
				if len(c) > 160 {
					c = c[:160]
				}
				res.InjectedCalls = append(res.InjectedCalls, c)
			}
		}
		// strip -y decorations "3</path>" are only in fd args; path args unchanged
		ev, ok := parseStraceLine(line, dir)
		if !ok {
			continue
		}
		ev.Seq = seq
		seq++
		res.Events = append(res.Events, ev)
	}
	return res
}
