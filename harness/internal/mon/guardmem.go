// Package mon holds the runtime monitors: guard-page memory, directory
// snapshots, recording/fault-injecting file systems, strace parsing.
package mon

import (
	"fmt"
	"syscall"
)

const pageSize = 4096

// GuardRegion is an mmap'ed span of data pages surrounded by PROT_NONE
// guard pages. Any load or store that leaves the data pages faults.
type GuardRegion struct {
	all  []byte
	Data []byte // the accessible pages
}

// NewGuardRegion maps n accessible pages between two guard pages.
func NewGuardRegion(n int) (*GuardRegion, error) {
	total := (n + 2) * pageSize
	b, err := syscall.Mmap(-1, 0, total, syscall.PROT_READ|syscall.PROT_WRITE, syscall.MAP_ANON|syscall.MAP_PRIVATE)
	if err != nil {
		return nil, fmt.Errorf("mmap: %w", err)
	}
	if err := syscall.Mprotect(b[:pageSize], syscall.PROT_NONE); err != nil {
		return nil, err
	}
	if err := syscall.Mprotect(b[total-pageSize:], syscall.PROT_NONE); err != nil {
		return nil, err
	}
	return &GuardRegion{all: b, Data: b[pageSize : total-pageSize]}, nil
}

// Close unmaps the region.
func (g *GuardRegion) Close() { syscall.Munmap(g.all) }

// Canary is the byte pattern written around buffers.
func Canary(i int) byte { return byte(0xA5 ^ (i * 31)) }

// FillCanary fills the accessible pages with the canary pattern.
func (g *GuardRegion) FillCanary() {
	for i := range g.Data {
		g.Data[i] = Canary(i)
	}
}

// Tail returns the n bytes that end exactly at the trailing guard page
// (capacity clipped to n).
func (g *GuardRegion) Tail(n int) []byte {
	l := len(g.Data)
	return g.Data[l-n : l : l]
}

// Head returns the n bytes that start right after the leading guard
// page (capacity clipped to n).
func (g *GuardRegion) Head(n int) []byte {
	return g.Data[0:n:n]
}

// At returns n bytes starting at offset off inside the data pages.
func (g *GuardRegion) At(off, n int) []byte {
	return g.Data[off : off+n : off+n]
}

// CheckCanaryOutside verifies that every byte of the data pages
// outside [off, off+n) still holds the canary. It returns the offset
// of the first clobbered byte or -1.
func (g *GuardRegion) CheckCanaryOutside(off, n int) int {
	for i := 0; i < off; i++ {
		if g.Data[i] != Canary(i) {
			return i
		}
	}
	for i := off + n; i < len(g.Data); i++ {
		if g.Data[i] != Canary(i) {
			return i
		}
	}
	return -1
}
