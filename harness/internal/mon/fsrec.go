package mon

import (
	"crypto/sha256"
	"errors"
	"fmt"
	"os"
	"sync"
	"syscall"
)

// InnerFS is what the recorder wraps: the real file-system seam of
// par1 (no Find) or par2.
type InnerFS interface {
	ReadFile(path string) ([]byte, error)
	WriteFile(path string, data []byte) error
}

// Finder is the optional third method of the par2 seam.
type Finder interface {
	FindWithPrefixAndSuffix(prefix, suffix string) ([]string, error)
}

// IOEvent is one recorded call.
type IOEvent struct {
	N      int    `json:"n"` // call index (0-based, over all kinds)
	Op     string `json:"op"`
	Path   string `json:"path"`
	Suffix string `json:"suffix,omitempty"`
	Bytes  int    `json:"bytes"`
	Err    string `json:"err,omitempty"`
	// Injected is set when the recorder made this call fail.
	Injected string `json:"injected,omitempty"`
	NotExist bool   `json:"notexist,omitempty"`
	// Sum is the SHA-256 (hex, truncated) of the data of a write call.
	Sum string `json:"sum,omitempty"`
}

// Fault describes an injected failure.
type Fault struct {
	At   int    // call index
	// "error" (no effect, the real file system is not called), "write-zero"
	// (truncate then fail), "write-partial" (prefix then fail), "open-fails"
	// (the REAL call runs while the process has no free file descriptor, so
	// its open fails with EMFILE inside the code under test)
	Kind string
}

// WithNoFreeFD runs fn while every open(2) of this process fails with
// EMFILE: the soft RLIMIT_NOFILE is lowered to the lowest free descriptor
// number for the duration of the call.
func WithNoFreeFD(fn func()) error {
	var old syscall.Rlimit
	if err := syscall.Getrlimit(syscall.RLIMIT_NOFILE, &old); err != nil {
		return err
	}
	fd, err := syscall.Open("/dev/null", syscall.O_RDONLY, 0)
	if err != nil {
		return err
	}
	syscall.Close(fd)
	lim := old
	lim.Cur = uint64(fd)
	if err := syscall.Setrlimit(syscall.RLIMIT_NOFILE, &lim); err != nil {
		return err
	}
	defer syscall.Setrlimit(syscall.RLIMIT_NOFILE, &old)
	fn()
	return nil
}

// ErrInjected is the error returned by injected faults.
var ErrInjected = errors.New("verif: injected I/O failure")

// RecFS records every call and can inject faults. It implements both
// the par1 and the par2 seam.
type RecFS struct {
	Inner  InnerFS
	mu     sync.Mutex
	Events []IOEvent
	Faults []Fault
	n      int
}

func (f *RecFS) next() (int, string) {
	n := f.n
	f.n++
	for _, ft := range f.Faults {
		if ft.At == n {
			return n, ft.Kind
		}
	}
	return n, ""
}

// ReadFile implements the seam.
func (f *RecFS) ReadFile(path string) ([]byte, error) {
	f.mu.Lock()
	n, kind := f.next()
	f.mu.Unlock()
	if kind == "open-fails" {
		var b []byte
		var err error
		if WithNoFreeFD(func() { b, err = f.Inner.ReadFile(path) }) == nil {
			ev := IOEvent{N: n, Op: "read", Path: path, Bytes: len(b)}
			if err != nil {
				ev.Err = err.Error()
				ev.NotExist = os.IsNotExist(err)
				if !ev.NotExist {
					ev.Injected = kind
				}
			}
			f.add(ev)
			return b, err
		}
		kind = "error"
	}
	if kind != "" {
		f.add(IOEvent{N: n, Op: "read", Path: path, Err: ErrInjected.Error(), Injected: kind})
		return nil, ErrInjected
	}
	b, err := f.Inner.ReadFile(path)
	ev := IOEvent{N: n, Op: "read", Path: path, Bytes: len(b)}
	if err != nil {
		ev.Err = err.Error()
		ev.NotExist = os.IsNotExist(err)
	}
	f.add(ev)
	return b, err
}

// FindWithPrefixAndSuffix implements the par2 seam.
func (f *RecFS) FindWithPrefixAndSuffix(prefix, suffix string) ([]string, error) {
	f.mu.Lock()
	n, kind := f.next()
	f.mu.Unlock()
	fd, ok := f.Inner.(Finder)
	if kind == "open-fails" && ok {
		var m []string
		var err error
		if WithNoFreeFD(func() { m, err = fd.FindWithPrefixAndSuffix(prefix, suffix) }) == nil {
			ev := IOEvent{N: n, Op: "find", Path: prefix, Suffix: suffix, Bytes: len(m)}
			if err != nil {
				ev.Err = err.Error()
				ev.Injected = kind
			}
			f.add(ev)
			return m, err
		}
		kind = "error"
	}
	if kind != "" {
		f.add(IOEvent{N: n, Op: "find", Path: prefix, Suffix: suffix, Err: ErrInjected.Error(), Injected: kind})
		return nil, ErrInjected
	}
	if !ok {
		return nil, fmt.Errorf("inner fs has no Find")
	}
	m, err := fd.FindWithPrefixAndSuffix(prefix, suffix)
	ev := IOEvent{N: n, Op: "find", Path: prefix, Suffix: suffix, Bytes: len(m)}
	if err != nil {
		ev.Err = err.Error()
	}
	f.add(ev)
	return m, err
}

// WriteFile implements the seam.
func (f *RecFS) WriteFile(path string, data []byte) error {
	f.mu.Lock()
	n, kind := f.next()
	f.mu.Unlock()
	if kind == "open-fails" {
		var err error
		if WithNoFreeFD(func() { err = f.Inner.WriteFile(path, data) }) == nil {
			ev := IOEvent{N: n, Op: "write", Path: path, Bytes: len(data), Sum: SumOf(data)}
			if err != nil {
				ev.Err = err.Error()
				ev.Injected = kind
			}
			f.add(ev)
			return err
		}
		kind = "error"
	}
	switch kind {
	case "error":
		f.add(IOEvent{N: n, Op: "write", Path: path, Bytes: len(data), Err: ErrInjected.Error(), Injected: kind})
		return ErrInjected
	case "write-zero":
		// What ioutil.WriteFile leaves behind when the write itself fails:
		// the file was opened with O_TRUNC.
		f.Inner.WriteFile(path, nil)
		f.add(IOEvent{N: n, Op: "write", Path: path, Bytes: len(data), Err: ErrInjected.Error(), Injected: kind})
		return ErrInjected
	case "write-partial":
		f.Inner.WriteFile(path, data[:len(data)/2])
		f.add(IOEvent{N: n, Op: "write", Path: path, Bytes: len(data), Err: ErrInjected.Error(), Injected: kind})
		return ErrInjected
	}
	err := f.Inner.WriteFile(path, data)
	ev := IOEvent{N: n, Op: "write", Path: path, Bytes: len(data), Sum: SumOf(data)}
	if err != nil {
		ev.Err = err.Error()
	}
	f.add(ev)
	return err
}

// SumOf is the digest stored in write events.
func SumOf(b []byte) string {
	h := sha256.Sum256(b)
	return fmt.Sprintf("%x", h[:12])
}

func (f *RecFS) add(ev IOEvent) {
	f.mu.Lock()
	f.Events = append(f.Events, ev)
	f.mu.Unlock()
}

// Writes returns the paths of write calls (attempted).
func (f *RecFS) Writes() []IOEvent {
	var w []IOEvent
	for _, e := range f.Events {
		if e.Op == "write" {
			w = append(w, e)
		}
	}
	return w
}
