package mon

import (
	"crypto/sha256"
	"errors"
	"fmt"
	"os"
	"path/filepath"
	"sync"
	"syscall"
)

// InnerFS is what the recorder wraps: the real file-system seam of
// par1 (no Find) or par2.
type InnerFS interface {
	ReadFile(path string) ([]byte, error)
	WriteFile(path string, data []byte) error
}

// Finder is the optional third method of the par2 seam.
type Finder interface {
	FindWithPrefixAndSuffix(prefix, suffix string) ([]string, error)
}

// IOEvent is one recorded call.
type IOEvent struct {
	N      int    `json:"n"` // call index (0-based, over all kinds)
	Op     string `json:"op"`
	Path   string `json:"path"`
	Suffix string `json:"suffix,omitempty"`
	Bytes  int    `json:"bytes"`
	Err    string `json:"err,omitempty"`
	// Injected is set when the recorder made this call fail.
	Injected string `json:"injected,omitempty"`
	NotExist bool   `json:"notexist,omitempty"`
	// Sum is the SHA-256 (hex, truncated) of the data of a write call.
	Sum string `json:"sum,omitempty"`
}

// Fault describes an injected failure.
type Fault struct {
	At   int    // call index
	// "error" (no effect, the real file system is not called), "write-zero"
	// (truncate then fail), "write-partial" (prefix then fail), "open-fails"
	// (the REAL call runs while the process has no free file descriptor, so
	// its open fails with EMFILE inside the code under test)
	Kind string
}

// WithNoFreeFD runs fn while every open(2) of this process fails with
// EMFILE: the soft RLIMIT_NOFILE is lowered to the lowest free descriptor
// number for the duration of the call.
func WithNoFreeFD(fn func()) error {
	var old syscall.Rlimit
	if err := syscall.Getrlimit(syscall.RLIMIT_NOFILE, &old); err != nil {
		return err
	}
	fd, err := syscall.Open("/dev/null", syscall.O_RDONLY, 0)
	if err != nil {
		return err
	}
	syscall.Close(fd)
	lim := old
	lim.Cur = uint64(fd)
	if err := syscall.Setrlimit(syscall.RLIMIT_NOFILE, &lim); err != nil {
		return err
	}
	defer syscall.Setrlimit(syscall.RLIMIT_NOFILE, &old)
	fn()
	return nil
}

// ErrInjected is the cause of injected faults. What the code under test gets
// is what the os package would hand it for a failing system call: an
// *os.PathError naming the operation (read / write / readdirent) whose Err is
// an errno (EIO, ENOSPC); ErrInjected stays available for errors.Is through
// injectedErrno.
var ErrInjected = errors.New("verif: injected I/O failure")

type injectedErrno struct{ syscall.Errno }

func (e injectedErrno) Is(target error) bool { return target == ErrInjected || e.Errno.Is(target) }
func (e injectedErrno) Unwrap() error        { return e.Errno }

func injected(op, path string) error {
	errno := syscall.EIO
	if op == "write" {
		errno = syscall.ENOSPC
	}
	return &os.PathError{Op: op, Path: path, Err: injectedErrno{errno}}
}

// RecFS records every call and can inject faults. It implements both
// the par1 and the par2 seam.
type RecFS struct {
	Inner  InnerFS
	mu     sync.Mutex
	Events []IOEvent
	Faults []Fault
	n      int
}

func (f *RecFS) next() (int, string) {
	n := f.n
	f.n++
	for _, ft := range f.Faults {
		if ft.At == n {
			return n, ft.Kind
		}
	}
	return n, ""
}

// ReadFile implements the seam.
func (f *RecFS) ReadFile(path string) ([]byte, error) {
	f.mu.Lock()
	n, kind := f.next()
	f.mu.Unlock()
	if kind == "open-fails" {
		var b []byte
		var err error
		if WithNoFreeFD(func() { b, err = f.Inner.ReadFile(path) }) == nil {
			ev := IOEvent{N: n, Op: "read", Path: path, Bytes: len(b)}
			if err != nil {
				ev.Err = err.Error()
				ev.NotExist = os.IsNotExist(err)
				if !ev.NotExist {
					ev.Injected = kind
				}
			}
			f.add(ev)
			return b, err
		}
		kind = "error"
	}
	if kind != "" {
		e := injected("read", path)
		f.add(IOEvent{N: n, Op: "read", Path: path, Err: e.Error(), Injected: kind})
		return nil, e
	}
	b, err := f.Inner.ReadFile(path)
	ev := IOEvent{N: n, Op: "read", Path: path, Bytes: len(b)}
	if err != nil {
		ev.Err = err.Error()
		ev.NotExist = os.IsNotExist(err)
	}
	f.add(ev)
	return b, err
}

// FindWithPrefixAndSuffix implements the par2 seam.
func (f *RecFS) FindWithPrefixAndSuffix(prefix, suffix string) ([]string, error) {
	f.mu.Lock()
	n, kind := f.next()
	f.mu.Unlock()
	fd, ok := f.Inner.(Finder)
	if kind == "open-fails" && ok {
		var m []string
		var err error
		if WithNoFreeFD(func() { m, err = fd.FindWithPrefixAndSuffix(prefix, suffix) }) == nil {
			ev := IOEvent{N: n, Op: "find", Path: prefix, Suffix: suffix, Bytes: len(m)}
			if err != nil {
				ev.Err = err.Error()
				ev.Injected = kind
			}
			f.add(ev)
			return m, err
		}
		kind = "error"
	}
	if kind != "" {
		e := injected("readdirent", filepath.Dir(prefix))
		f.add(IOEvent{N: n, Op: "find", Path: prefix, Suffix: suffix, Err: e.Error(), Injected: kind})
		return nil, e
	}
	if !ok {
		return nil, fmt.Errorf("inner fs has no Find")
	}
	m, err := fd.FindWithPrefixAndSuffix(prefix, suffix)
	ev := IOEvent{N: n, Op: "find", Path: prefix, Suffix: suffix, Bytes: len(m)}
	if err != nil {
		ev.Err = err.Error()
	}
	f.add(ev)
	return m, err
}

// WriteFile implements the seam.
func (f *RecFS) WriteFile(path string, data []byte) error {
	f.mu.Lock()
	n, kind := f.next()
	f.mu.Unlock()
	if kind == "open-fails" {
		var err error
		if WithNoFreeFD(func() { err = f.Inner.WriteFile(path, data) }) == nil {
			ev := IOEvent{N: n, Op: "write", Path: path, Bytes: len(data), Sum: SumOf(data)}
			if err != nil {
				ev.Err = err.Error()
				ev.Injected = kind
			}
			f.add(ev)
			return err
		}
		kind = "error"
	}
	switch kind {
	case "error":
		e := injected("write", path)
		f.add(IOEvent{N: n, Op: "write", Path: path, Bytes: len(data), Err: e.Error(), Injected: kind})
		return e
	case "write-zero":
		// What ioutil.WriteFile leaves behind when the write itself fails:
		// the file was opened with O_TRUNC.
		f.Inner.WriteFile(path, nil)
		e := injected("write", path)
		f.add(IOEvent{N: n, Op: "write", Path: path, Bytes: len(data), Err: e.Error(), Injected: kind})
		return e
	case "write-partial":
		f.Inner.WriteFile(path, data[:len(data)/2])
		e := injected("write", path)
		f.add(IOEvent{N: n, Op: "write", Path: path, Bytes: len(data), Err: e.Error(), Injected: kind})
		return e
	}
	err := f.Inner.WriteFile(path, data)
	ev := IOEvent{N: n, Op: "write", Path: path, Bytes: len(data), Sum: SumOf(data)}
	if err != nil {
		ev.Err = err.Error()
	}
	f.add(ev)
	return err
}

// SumOf is the digest stored in write events.
func SumOf(b []byte) string {
	h := sha256.Sum256(b)
	return fmt.Sprintf("%x", h[:12])
}

func (f *RecFS) add(ev IOEvent) {
	f.mu.Lock()
	f.Events = append(f.Events, ev)
	f.mu.Unlock()
}

// Writes returns the paths of write calls (attempted).
func (f *RecFS) Writes() []IOEvent {
	var w []IOEvent
	for _, e := range f.Events {
		if e.Op == "write" {
			w = append(w, e)
		}
	}
	return w
}
