// Package scen generates protected file sets and damage scenarios whose
// effect on every protected slice is known by construction.
package scen

import (
	"strings"
	"crypto/sha256"
	"fmt"
	"math/rand"
	"os"
	"path/filepath"
	"sort"
)

// File is one protected file: name relative to the set directory.
type File struct {
	Name string
	Data []byte
}

// Set is a file set plus creation parameters.
type Set struct {
	Files     []File
	SliceSize int
	Blocks    int
	Content   string // content class, for reporting
}

// ContentKinds lists the content classes.
var ContentKinds = []string{"random", "random", "random", "zeros", "period", "dupslices", "mixed", "crctwins"}

// GenData produces n bytes of the given content class.
func GenData(rng *rand.Rand, kind string, n, slice int) []byte {
	b := make([]byte, n)
	switch kind {
	case "zeros":
	case "period":
		per := 1 + rng.Intn(7)
		pat := make([]byte, per)
		rng.Read(pat)
		for i := range b {
			b[i] = pat[i%per]
		}
	case "dupslices":
		// a few distinct slices repeated
		k := 1 + rng.Intn(3)
		pool := make([][]byte, k)
		for i := range pool {
			pool[i] = make([]byte, slice)
			rng.Read(pool[i])
		}
		for off := 0; off < n; off += slice {
			copy(b[off:], pool[rng.Intn(k)])
		}
	case "crctwins":
		// random content in which some slices are CRC-32 twins of their
		// predecessor: same CRC-32, different bytes (needs slices >= 8 bytes)
		rng.Read(b)
		if slice >= 8 {
			for off := slice; off+slice <= n; off += slice {
				if rng.Intn(2) == 0 {
					copy(b[off:off+slice], b[off-slice:off])
					pat := CRCPreservingPattern(rng.Intn(8))
					at := off + rng.Intn(slice-5)
					for k, x := range pat {
						b[at+k] ^= x
					}
				}
			}
		}
	case "mixed":
		rng.Read(b)
		// zero runs
		for k := 0; k < 1+n/64; k++ {
			if n > 1 {
				s := rng.Intn(n)
				e := s + rng.Intn(2*slice+1)
				if e > n {
					e = n
				}
				for i := s; i < e; i++ {
					b[i] = 0
				}
			}
		}
	default:
		rng.Read(b)
	}
	return b
}

// longName is a 200-character file name component; longDirs nests four
// 61-character directories, so that the relative path exceeds 255 bytes
// while every component stays below NAME_MAX.
var longName = strings.Repeat("long-name ", 20)
var longDirs = strings.Repeat(strings.Repeat("d", 61)+"/", 4)

// GenName makes a unique relative file name; ascii only when ascii is
// set; with sub-directories when subdirs is set.
func GenName(rng *rand.Rand, i int, ascii, subdirs bool) string {
	base := []string{"a", "data", "file one", "x.bin", "R-1", "p.q.r", "UPPER.TXT", "z_9", "vol.par2.txt", "#h", "a=b", "pct%20", "tab\tname", "read..me", "take 2...final", "x..",
		"back\\slash", "C:\\dir\\f", "100%", longName}[rng.Intn(20)]
	if !ascii && rng.Intn(3) == 0 {
		base = []string{"ünï", "日本語", "emoji😀x", "Ωmega", "𝔘𝔫𝔦"}[rng.Intn(5)]
	}
	name := fmt.Sprintf("%s-%d", base, i)
	if subdirs && rng.Intn(3) == 0 {
		name = []string{"sub/", "d1/d2/", "s p/", longDirs}[rng.Intn(4)] + name
	}
	return name
}

// SizeAround picks a size from the interesting classes around the slice
// size s and 16 KiB.
func SizeAround(rng *rand.Rand, s int, allowBig bool) int {
	k := 1 + rng.Intn(6)
	choices := []int{1, 2, 3, s - 1, s, s + 1, k * s, k*s - 1, k*s + 1, 2*s + 3, 1 + rng.Intn(8*s)}
	if allowBig && rng.Intn(6) == 0 {
		choices = []int{16383, 16384, 16385, 16384 + s, 16384 - s, 20000 + rng.Intn(3000)}
	}
	n := choices[rng.Intn(len(choices))]
	if n < 1 {
		n = 1
	}
	return n
}

// Materialize writes the files below dir and returns their paths.
func (s Set) Materialize(dir string) ([]string, error) {
	var paths []string
	for _, f := range s.Files {
		p := filepath.Join(dir, filepath.FromSlash(f.Name))
		if err := os.MkdirAll(filepath.Dir(p), 0755); err != nil {
			return nil, err
		}
		if err := os.WriteFile(p, f.Data, 0644); err != nil {
			return nil, err
		}
		paths = append(paths, p)
	}
	return paths, nil
}

// TotalSlices is the number of protected slices.
func (s Set) TotalSlices() int {
	n := 0
	for _, f := range s.Files {
		n += (len(f.Data) + s.SliceSize - 1) / s.SliceSize
	}
	return n
}

// Snapshot maps relative path -> sha256 (hex) + size for all regular
// files below dir; directories are listed with "dir".
func Snapshot(dir string) map[string]string {
	m := map[string]string{}
	filepath.Walk(dir, func(p string, info os.FileInfo, err error) error {
		if err != nil {
			return nil
		}
		rel, _ := filepath.Rel(dir, p)
		if rel == "." {
			return nil
		}
		switch {
		case info.IsDir():
			m[rel] = "dir"
		case info.Mode()&os.ModeSymlink != 0:
			t, _ := os.Readlink(p)
			m[rel] = "symlink:" + t
		case info.Mode().IsRegular():
			b, err := os.ReadFile(p)
			if err != nil {
				m[rel] = "unreadable"
			} else {
				h := sha256.Sum256(b)
				m[rel] = fmt.Sprintf("%x:%d", h[:12], len(b))
			}
		default:
			m[rel] = "special"
		}
		return nil
	})
	return m
}

// DiffSnap lists differences between two snapshots.
func DiffSnap(a, b map[string]string) []string {
	var d []string
	for k, v := range a {
		if w, ok := b[k]; !ok {
			d = append(d, "removed "+k)
		} else if w != v {
			d = append(d, "changed "+k)
		}
	}
	for k := range b {
		if _, ok := a[k]; !ok {
			d = append(d, "created "+k)
		}
	}
	sort.Strings(d)
	return d
}
