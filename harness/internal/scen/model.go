package scen

import (
	"fmt"
	"math/rand"
)

// Seg is a run of bytes of a surviving file: either a copy of bytes
// [Start,Start+Len) of original file F, or garbage (F == -1).
type Seg struct {
	F     int
	Start int
	Len   int
	G     []byte
}

// CurFile is the current content of one protected name.
type CurFile struct {
	Present bool
	Segs    []Seg
}

// State models the directory of a protected set under damage: the
// content under every protected name is a list of segments, so the
// fate of every protected slice is known by construction.
type State struct {
	Set Set
	Cur []CurFile
	Log []string
}

// NewState is the undamaged state.
func NewState(set Set) *State {
	st := &State{Set: set}
	for i, f := range set.Files {
		st.Cur = append(st.Cur, CurFile{Present: true, Segs: []Seg{{F: i, Start: 0, Len: len(f.Data)}}})
	}
	return st
}

// Clone copies the state.
func (st *State) Clone() *State {
	n := &State{Set: st.Set}
	for _, c := range st.Cur {
		n.Cur = append(n.Cur, CurFile{c.Present, append([]Seg(nil), c.Segs...)})
	}
	n.Log = append([]string(nil), st.Log...)
	return n
}

// Len is the current length of file i.
func (st *State) Len(i int) int {
	n := 0
	for _, s := range st.Cur[i].Segs {
		n += s.Len
	}
	return n
}

// Bytes materialises file i.
func (st *State) Bytes(i int) []byte {
	var b []byte
	for _, s := range st.Cur[i].Segs {
		if s.F < 0 {
			b = append(b, s.G...)
		} else {
			b = append(b, st.Set.Files[s.F].Data[s.Start:s.Start+s.Len]...)
		}
	}
	if b == nil {
		b = []byte{}
	}
	return b
}

// Identical reports whether file i is present with its original bytes.
func (st *State) Identical(i int) bool {
	c := st.Cur[i]
	if !c.Present {
		return false
	}
	return string(st.Bytes(i)) == string(st.Set.Files[i].Data)
}

// splitAt makes position p a segment boundary and returns the index of
// the segment starting at p (len(segs) if p is the end).
func splitAt(segs []Seg, p int) ([]Seg, int) {
	off := 0
	for i, s := range segs {
		if p == off {
			return segs, i
		}
		if p < off+s.Len {
			k := p - off
			a, b := s, s
			a.Len = k
			b.Len = s.Len - k
			if s.F < 0 {
				a.G = s.G[:k]
				b.G = s.G[k:]
			} else {
				b.Start = s.Start + k
			}
			out := append([]Seg(nil), segs[:i]...)
			out = append(out, a, b)
			out = append(out, segs[i+1:]...)
			return out, i + 1
		}
		off += s.Len
	}
	return segs, len(segs)
}

// Garbage returns n random non-zero bytes.
func Garbage(rng *rand.Rand, n int) []byte {
	b := make([]byte, n)
	for i := range b {
		b[i] = byte(1 + rng.Intn(255))
	}
	return b
}

// Op is a damage operation.
type Op struct {
	Kind string `json:"kind"`
	A    int    `json:"a"`
	B    int    `json:"b,omitempty"`
	Pos  int    `json:"pos,omitempty"`
	Len  int    `json:"len,omitempty"`
	G    []byte `json:"g,omitempty"`
}

func (o Op) String() string {
	switch o.Kind {
	case "delete":
		return fmt.Sprintf("delete(f%d)", o.A)
	case "swap":
		return fmt.Sprintf("swap(f%d,f%d)", o.A, o.B)
	case "copy":
		return fmt.Sprintf("copy(f%d->f%d)", o.A, o.B)
	case "insert", "append":
		return fmt.Sprintf("%s(f%d,@%d,%dB)", o.Kind, o.A, o.Pos, len(o.G))
	default:
		return fmt.Sprintf("%s(f%d,@%d,%d)", o.Kind, o.A, o.Pos, o.Len)
	}
}

// Apply performs the operation on the model.
func (st *State) Apply(o Op) {
	st.Log = append(st.Log, o.String())
	c := &st.Cur[o.A]
	switch o.Kind {
	case "delete":
		c.Present = false
		c.Segs = nil
	case "swap":
		st.Cur[o.A], st.Cur[o.B] = st.Cur[o.B], st.Cur[o.A]
	case "copy":
		st.Cur[o.B] = CurFile{st.Cur[o.A].Present, append([]Seg(nil), st.Cur[o.A].Segs...)}
	case "overwrite":
		if !c.Present {
			return
		}
		n := st.Len(o.A)
		p, l := o.Pos, len(o.G)
		if p > n {
			p = n
		}
		if p+l > n {
			l = n - p
		}
		if l <= 0 {
			return
		}
		segs, i := splitAt(c.Segs, p)
		segs, j := splitAt(segs, p+l)
		out := append([]Seg(nil), segs[:i]...)
		out = append(out, Seg{F: -1, Len: l, G: o.G[:l]})
		out = append(out, segs[j:]...)
		c.Segs = out
	case "insert", "append":
		if !c.Present {
			return
		}
		p := o.Pos
		if o.Kind == "append" || p > st.Len(o.A) {
			p = st.Len(o.A)
		}
		segs, i := splitAt(c.Segs, p)
		out := append([]Seg(nil), segs[:i]...)
		out = append(out, Seg{F: -1, Len: len(o.G), G: o.G})
		out = append(out, segs[i:]...)
		c.Segs = out
	case "cut":
		if !c.Present {
			return
		}
		n := st.Len(o.A)
		p, l := o.Pos, o.Len
		if p > n {
			p = n
		}
		if p+l > n {
			l = n - p
		}
		if l <= 0 {
			return
		}
		segs, i := splitAt(c.Segs, p)
		segs, j := splitAt(segs, p+l)
		c.Segs = append(append([]Seg(nil), segs[:i]...), segs[j:]...)
	case "truncate":
		if !c.Present {
			return
		}
		p := o.Pos
		if p > st.Len(o.A) {
			return
		}
		segs, i := splitAt(c.Segs, p)
		c.Segs = append([]Seg(nil), segs[:i]...)
	}
}

// CRCPreservingPattern returns 6 bytes which, XOR-ed into any message,
// leave its CRC-32 (IEEE) unchanged: the generator polynomial
// 0x104C11DB7 laid out in the bit order the reflected CRC consumes,
// shifted by 0..7 bits.
func CRCPreservingPattern(shift int) []byte {
	const g = uint64(0x104C11DB7)
	out := make([]byte, 6)
	for i := 0; i <= 32; i++ {
		if g>>(32-uint(i))&1 != 0 {
			pos := i + shift%8
			out[pos/8] |= 1 << uint(pos%8)
		}
	}
	return out
}

// RandomOp draws a damage operation applicable to the state.
func RandomOp(rng *rand.Rand, st *State) Op {
	nf := len(st.Cur)
	a := rng.Intn(nf)
	n := st.Len(a)
	s := st.Set.SliceSize
	pos := func() int {
		if n == 0 {
			return 0
		}
		switch rng.Intn(4) {
		case 0:
			return (rng.Intn(n/s+1) * s) % (n + 1) // slice boundary
		case 1:
			return n - 1 - rng.Intn(min(n, s))
		default:
			return rng.Intn(n + 1)
		}
	}
	glen := func() int {
		return []int{1, 1, 2, 3, s - 1, s, s + 1, 2*s + 1, 1 + rng.Intn(3*s)}[rng.Intn(9)]
	}
	kinds := []string{"delete", "overwrite", "overwrite", "flip", "insert", "cut", "truncate", "append", "swap", "copy", "crcflip"}
	k := kinds[rng.Intn(len(kinds))]
	if nf < 2 && (k == "swap" || k == "copy") {
		k = "overwrite"
	}
	switch k {
	case "delete":
		return Op{Kind: "delete", A: a}
	case "overwrite":
		return Op{Kind: "overwrite", A: a, Pos: pos(), G: Garbage(rng, glen())}
	case "flip":
		// one byte replaced by a different value: modelled as a
		// 1-byte overwrite whose garbage differs from the original.
		p := 0
		if n > 0 {
			p = rng.Intn(n)
		}
		cur := byte(0)
		if n > 0 {
			cur = st.Bytes(a)[p]
		}
		g := byte(1 + rng.Intn(255))
		if g == cur {
			g ^= 0x40
			if g == 0 {
				g = 0x41
			}
		}
		return Op{Kind: "overwrite", A: a, Pos: p, G: []byte{g}}
	case "crcflip":
		// damage that keeps the CRC-32 of every slice it lies in
		if n < 6 {
			return Op{Kind: "overwrite", A: a, Pos: 0, G: Garbage(rng, 1)}
		}
		p := rng.Intn(n - 5)
		cur := st.Bytes(a)[p : p+6]
		pat := CRCPreservingPattern(rng.Intn(8))
		g := make([]byte, 6)
		for i := range g {
			g[i] = cur[i] ^ pat[i]
		}
		return Op{Kind: "overwrite", A: a, Pos: p, G: g}
	case "insert":
		return Op{Kind: "insert", A: a, Pos: pos(), G: Garbage(rng, glen())}
	case "cut":
		return Op{Kind: "cut", A: a, Pos: pos(), Len: glen()}
	case "truncate":
		return Op{Kind: "truncate", A: a, Pos: pos()}
	case "append":
		return Op{Kind: "append", A: a, G: Garbage(rng, glen())}
	case "swap":
		b := rng.Intn(nf)
		for b == a {
			b = rng.Intn(nf)
		}
		return Op{Kind: "swap", A: a, B: b}
	default:
		b := rng.Intn(nf)
		for b == a {
			b = rng.Intn(nf)
		}
		return Op{Kind: "copy", A: a, B: b}
	}
}

// SliceRef names a protected slice.
type SliceRef struct{ F, I int }

// NumSlices returns the slice count of original file f.
func (st *State) NumSlices(f int) int {
	s := st.Set.SliceSize
	return (len(st.Set.Files[f].Data) + s - 1) / s
}

// Witnessed returns the set of protected slices that survive, by
// construction, contiguously inside one segment of a surviving file
// (a short tail slice only if that segment ends the file).
func (st *State) Witnessed() map[SliceRef]bool {
	w := map[SliceRef]bool{}
	s := st.Set.SliceSize
	for ci, c := range st.Cur {
		if !c.Present {
			continue
		}
		total := st.Len(ci)
		off := 0
		for _, sg := range c.Segs {
			if sg.F >= 0 {
				flen := len(st.Set.Files[sg.F].Data)
				first := (sg.Start + s - 1) / s
				for i := first; i*s < sg.Start+sg.Len; i++ {
					end := (i + 1) * s
					if end > flen {
						// short tail slice: must reach the end of the
						// original file and of the surviving file
						if sg.Start+sg.Len == flen && off+sg.Len == total {
							w[SliceRef{sg.F, i}] = true
						}
						continue
					}
					if end <= sg.Start+sg.Len {
						w[SliceRef{sg.F, i}] = true
					}
				}
			}
			off += sg.Len
		}
	}
	return w
}

// WitnessedByContent closes Witnessed under equality of slice content: a
// protected slice whose zero-padded bytes equal those of a witnessed slice
// survives at the very same place (identical files, shared headers).
func (st *State) WitnessedByContent() map[SliceRef]bool {
	w := st.Witnessed()
	have := map[string]bool{}
	for r := range w {
		have[string(st.PaddedSlice(r))] = true
	}
	for _, r := range st.AllSlices() {
		if !w[r] && have[string(st.PaddedSlice(r))] {
			w[r] = true
		}
	}
	return w
}

// PaddedSlice returns the zero-padded content of a protected slice.
func (st *State) PaddedSlice(r SliceRef) []byte {
	s := st.Set.SliceSize
	b := make([]byte, s)
	copy(b, st.Set.Files[r.F].Data[r.I*s:])
	return b
}

// AllSlices lists every protected slice.
func (st *State) AllSlices() []SliceRef {
	var out []SliceRef
	for f := range st.Set.Files {
		for i := 0; i < st.NumSlices(f); i++ {
			out = append(out, SliceRef{f, i})
		}
	}
	return out
}

// Find runs the brute-force finder over the surviving protected files.
// findable: slices whose padded content equals the window (zero padded
// past end of file) at SOME offset of SOME surviving file.
// skipOnHit: slices found by a scanner that advances one byte after a
// miss and one slice size after a hit (each file scanned from 0).
func (st *State) Find() (findable, skipOnHit map[SliceRef]bool) {
	s := st.Set.SliceSize
	byContent := map[string][]SliceRef{}
	firstWord := map[uint32]bool{}
	for _, r := range st.AllSlices() {
		p := st.PaddedSlice(r)
		byContent[string(p)] = append(byContent[string(p)], r)
		firstWord[uint32(p[0])|uint32(p[1])<<8|uint32(p[2])<<16|uint32(p[3])<<24] = true
	}
	findable = map[SliceRef]bool{}
	skipOnHit = map[SliceRef]bool{}
	win := make([]byte, s)
	for ci, c := range st.Cur {
		if !c.Present {
			continue
		}
		data := st.Bytes(ci)
		next := 0 // next offset the skipping scanner looks at
		for j := 0; j < len(data); j++ {
			var fw uint32
			for k := 0; k < 4; k++ {
				if j+k < len(data) {
					fw |= uint32(data[j+k]) << (8 * uint(k))
				}
			}
			var hit []SliceRef
			if firstWord[fw] {
				var w []byte
				if j+s <= len(data) {
					w = data[j : j+s]
				} else {
					for k := range win {
						win[k] = 0
					}
					copy(win, data[j:])
					w = win
				}
				hit = byContent[string(w)]
			}
			for _, r := range hit {
				findable[r] = true
			}
			if j == next {
				if len(hit) > 0 {
					for _, r := range hit {
						skipOnHit[r] = true
					}
					next = j + s
				} else {
					next = j + 1
				}
			}
		}
	}
	return
}

func min(a, b int) int {
	if a < b {
		return a
	}
	return b
}
