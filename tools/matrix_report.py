#!/usr/bin/env python3
"""Builds /verif/seeded/MATRIX.md and fills meta.json detected_by from seeded/matrix/*.txt."""
import os, json, glob, re
root='/verif/seeded'
rows=[]
for d in sorted(glob.glob(root+'/C*-*')):
    name=os.path.basename(d)
    meta=json.load(open(d+'/meta.json'))
    fired=[]; sigs={}
    seen=False
    for sub in ('matrix-round1','own'):
        mf=os.path.join(root,sub,name+'.txt')
        if os.path.exists(mf):
            seen=True
            for line in open(mf):
                m=re.match(r'(C\d+) rc=(\d+) ?(.*)',line.strip())
                if m and m.group(2)=='1' and m.group(1) not in fired:
                    fired.append(m.group(1)); sigs[m.group(1)]=m.group(3)
    meta['detected_by']=fired
    meta['detection_run']="tools/matrix.sh at VERIF_SEED=1 against the change applied to a scratch worktree of /repo HEAD: seeded/own = the check of the property the change was written against (final version of the checks), seeded/matrix-round1 = every quick check against the round-1 changes (earlier version of the checks)"
    if fired:
        meta['example_signatures']={k:v for k,v in list(sigs.items())[:3]}
    json.dump(meta,open(d+'/meta.json','w'),indent=1)
    notes=open(d+'/notes.md').read() if os.path.exists(d+'/notes.md') else ''
    rows.append((name,meta['property'],', '.join(meta['files_changed']),fired,bool(meta.get('superseded'))))
with open(root+'/MATRIX.md','w') as f:
    f.write("# Seeded changes x quick checks\n\nEach change compiles and passes the repository's 266 tests; its demonstration fails with it and passes without it (tools/seed_import.sh). `own` = the check of the property the change was written against.\n\n| change | files | own check fires | other checks that fire |\n|---|---|---|---|\n")
    for name,prop,files,fired,sup in rows:
        own='superseded by a later fix (meta.json)' if sup else 'yes' if prop in fired else ('NO' if (os.path.exists(os.path.join(root,'matrix-round1',name+'.txt')) or os.path.exists(os.path.join(root,'own',name+'.txt'))) else 'pending')
        f.write("| %s | %s | %s | %s |\n"%(name,files,own,' '.join(x for x in fired if x!=prop)))
print("rows",len(rows),"own-missed",[r[0] for r in rows if r[1] not in r[3] and not r[4]])
