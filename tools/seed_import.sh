#!/bin/bash
# usage: seed_import.sh <src dir with patch.diff, demo/, notes.md> <name e.g. C01-a> <property id>
# Validates a seeded change in a scratch worktree of /repo's HEAD and imports it to /verif/seeded/<name>/.
set -u
SRC="$1"; NAME="$2"; PROP="$3"
export GOFLAGS=-mod=mod GOPROXY=off GOSUMDB=off GOTOOLCHAIN=local
WT=/tmp/seedwt-$NAME
rm -rf "$WT"; git -C /repo worktree prune
git -C /repo worktree add -q --detach "$WT" HEAD || { echo "$NAME: worktree failed"; exit 1; }
cleanup() { git -C /repo worktree remove --force "$WT" >/dev/null 2>&1; rm -rf "$WT"; }
trap cleanup EXIT
cd "$WT"
res="ok"
# demo on the pristine tree must pass
if ! bash "$SRC/demo/run.sh" "$WT" >/tmp/seed-$NAME-pristine.log 2>&1; then res="demo-fails-on-pristine"; fi
git checkout -q -- . ; git clean -fdq
if [ "$res" = ok ]; then
  if ! git apply "$SRC/patch.diff" 2>/tmp/seed-$NAME-apply.log; then res="patch-does-not-apply"; fi
fi
if [ "$res" = ok ]; then
  go build ./... >/tmp/seed-$NAME-build.log 2>&1 || res="does-not-build"
fi
if [ "$res" = ok ]; then
  go test -count=1 ./... >/tmp/seed-$NAME-suite.log 2>&1 || res="existing-suite-fails"
fi
if [ "$res" = ok ]; then
  if bash "$SRC/demo/run.sh" "$WT" >/tmp/seed-$NAME-mutated.log 2>&1; then res="demo-passes-with-change"; fi
fi
echo "$NAME: $res"
if [ "$res" = ok ]; then
  D=/verif/seeded/$NAME
  rm -rf "$D"; mkdir -p "$D"
  cp "$SRC/patch.diff" "$D/patch.diff"
  cp -r "$SRC/demo" "$D/demo"
  [ -f "$SRC/notes.md" ] && cp "$SRC/notes.md" "$D/notes.md"
  python3 - "$D" "$NAME" "$PROP" <<'PY'
import json,sys,subprocess,re
d,name,prop=sys.argv[1:4]
notes=open(d+'/notes.md').read() if __import__('os').path.exists(d+'/notes.md') else ''
head=subprocess.check_output(['git','-C','/repo','rev-parse','--short','HEAD'],text=True).strip()
files=re.findall(r'^\+\+\+ b/(.*)$', open(d+'/patch.diff').read(), re.M)
meta={"name":name,"property":prop,"files_changed":files,"validated_against_repo_commit":head,
 "validation":"in a scratch worktree of /repo HEAD: demo/run.sh passes on the pristine tree; patch applies; go build ./... ok; go test -count=1 ./... passes; demo/run.sh fails with the change (tools/seed_import.sh)",
 "needs_to_manifest":"see notes.md","detected_by":[]}
json.dump(meta,open(d+'/meta.json','w'),indent=1)
PY
fi
