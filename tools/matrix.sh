#!/bin/bash
# usage: matrix.sh <lanes> [mutant names...]
# Runs every quick check against every seeded change, in parallel lanes that
# each own a copy of /verif and a scratch worktree of /repo (nothing is applied
# to /repo itself). Results: /verif/seeded/matrix/<mutant>.txt
set -u
LANES="${1:-4}"; shift
MUTS="$@"
[ -z "$MUTS" ] && MUTS=$(ls /verif/seeded | grep -E '^C[0-9]+-[a-z]$')
OUT=${MATRIX_OUT:-/verif/seeded/matrix}; mkdir -p "$OUT"
BASE=${MATRIX_BASE:-/tmp/mx}; rm -rf "$BASE"; mkdir -p "$BASE"; git -C /repo worktree prune
IDS=$(python3 -c "import json;print(' '.join(c['property_id'] for c in json.load(open('/verif/MANIFEST.json'))['checks']))")
lane() {
  L=$1; shift
  D=$BASE/lane$L; mkdir -p $D
  rsync -a --exclude .git --exclude .build --exclude evidence --exclude replays --exclude seeded /verif/ $D/verif/
  git -C /repo worktree add -q --detach $D/repo HEAD
  sed -i "s#=> /repo#=> $D/repo#" $D/verif/harness/go.mod
  for m in "$@"; do
    git -C $D/repo checkout -q -- . ; git -C $D/repo clean -fdq
    if ! git -C $D/repo apply /verif/seeded/$m/patch.diff; then echo "$m APPLY-FAILED" > $OUT/$m.txt; continue; fi
    : > $OUT/$m.txt.tmp
    RUNIDS="$IDS"
    [ -n "${OWN_ONLY:-}" ] && RUNIDS="${m%-*}"
    [ -n "${CHECK_IDS:-}" ] && RUNIDS="$CHECK_IDS"
    for id in $RUNIDS; do
      o=$(cd $D/verif && REPO_DIR=$D/repo ./check.sh $id ${MATRIX_TIER:-quick} 2>&1); rc=$?
      sigs=$(echo "$o" | grep -E "^  sig=" | sed 's/^  sig=//' | sort -u | head -4 | tr '\n' ';')
      echo "$id rc=$rc $sigs" >> $OUT/$m.txt.tmp
      [ -n "${KEEP_LOG:-}" ] && echo "$o" > $OUT/$m.$id.log
    done
    mv $OUT/$m.txt.tmp $OUT/$m.txt
  done
  git -C /repo worktree remove --force $D/repo
}
i=0
declare -a BUCKET
for m in $MUTS; do BUCKET[$((i % LANES))]+=" $m"; i=$((i+1)); done
for L in $(seq 0 $((LANES-1))); do lane $L ${BUCKET[$L]} & done
wait
rm -rf $BASE; git -C /repo worktree prune
echo MATRIX-DONE
