#!/usr/bin/env python3
"""Generates /verif/MANIFEST.json from tools/checks.json (one entry per built check)."""
import json, os, subprocess
here = os.path.dirname(os.path.abspath(__file__))
root = os.path.dirname(here)
checks = json.load(open(os.path.join(here, 'checks.json')))
props = [json.loads(l)['id'] for l in open(os.path.join(root, 'properties.jsonl'))]
def hook_commits():
    try:
        out = subprocess.check_output(['git', '-C', '/repo', 'log', '--format=%H %s'], text=True)
        return [l.split()[0] for l in out.splitlines() if ' verif hooks' in l]
    except Exception:
        return []
m = {
 "version": 1,
 "setup_cmd": "cd /verif/harness && cp -f /repo/go.sum go.sum && GOFLAGS=-mod=mod GOPROXY=off GOSUMDB=off GOTOOLCHAIN=local go build -tags verif -o /verif/.build/vw ./cmd/vw && GOFLAGS=-mod=mod GOPROXY=off GOSUMDB=off GOTOOLCHAIN=local go build -race -tags verif -o /verif/.build/vw-race ./cmd/vw",
 "hooks": {
  "guard": "verif",
  "enable": "go build -tags verif (Go build tag; every hook file carries //go:build verif and has a !verif twin that compiles to nothing); check.sh builds harness/cmd/vw with it against /repo through a replace directive",
  "baseline_off_cmd": "cd /repo && GOFLAGS=-mod=mod GOPROXY=off GOSUMDB=off GOTOOLCHAIN=local go test -vet=off -count=1 -timeout 25m ./...",
  "source_commits": hook_commits(),
  "add_only": True
 },
 "engines": [
  {"name": "vw", "path": "harness/cmd/vw", "serves_properties": [c['id'] for c in checks],
   "kind_free_text": "Go driver+worker: generates seeded/enumerated workloads, runs the real gopar code in journalled child processes under monitors (reference oracles, recording/fault-injecting fileIO, guard pages, race detector with kernel annotations, strace), aggregates three-valued verdicts, writes evidence and replay files"}
 ],
 "checks": [],
 "notes": "All checks: ./check.sh <ID> <quick|thorough> rebuilds harness/cmd/vw with -tags verif against /repo's working tree and runs it. KNOWN_FINDINGS.txt lists recorded findings and fixed defects. See DESIGN.md.",
 "not_applicable": []
}
built = set()
for c in checks:
    built.add(c['id'])
    m['checks'].append({
      "property_id": c['id'],
      "quick_cmd": "./check.sh %s quick" % c['id'],
      "thorough_cmd": "./check.sh %s thorough" % c['id'],
      "evidence_file": "/verif/evidence/%s.json" % c['id'],
      "replay_cmd_template": "./.build/vw-%s replay {path}" % c['id'],
      "engine": "vw",
      "level_claimed": {"category": c['level'], "text": c['text'], "design_ref": c.get('design_ref', 'DESIGN.md §6 ' + c['id'])},
      "level_note": c['note'],
      "technique": c['technique'],
    })
for p in props:
    if p not in built:
        m['not_applicable'].append({"property_id": p, "reason": "check not built yet in this round (the technique applies; see DESIGN.md §6)"})
json.dump(m, open(os.path.join(root, 'MANIFEST.json'), 'w'), indent=1)
print("checks:", len(m['checks']), "not_applicable:", len(m['not_applicable']))
