#!/usr/bin/env python3
"""Prints the 'As built' table rows of DESIGN.md section 6 from evidence/*.json (quick tier)
and, when given, from runall.sh logs of thorough runs:  tools/asbuilt.py [thorough-log ...]"""
import json, re, sys, glob, os
here = os.path.dirname(os.path.abspath(__file__)) + '/..'
th = {}
for lg in sys.argv[1:]:
    for l in open(lg, errors='replace'):
        m = re.match(r'(C\d\d) rc=(\d+) (\d+)s :: C\d\d tier=thorough seed=(\d+): evaluations=(\d+) .*distinct_nontrivial=(\d+)', l)
        if m and m.group(2) == '0':
            th.setdefault(m.group(1), {})[int(m.group(4))] = (int(m.group(4)), int(m.group(5)), int(m.group(6)), int(m.group(3)))  # the latest run of a seed wins
print('| | quick (seed 1): cases / distinct non-trivial keys / largest monitor counters / wall | thorough: cases / distinct keys / wall (seeds run) |')
print('|---|---|---|')
for f in sorted(glob.glob(here + '/evidence/C*.json')):
    e = json.load(open(f))
    c = e['coverage']
    mc = sorted(c.get('monitor_counters', {}).items(), key=lambda kv: -kv[1])[:4]
    cnt = ', '.join('%s=%d' % kv for kv in mc)
    t = ''
    if e['property_id'] in th:
        rs = sorted(th[e['property_id']].values())
        t = '%d / %d / %d s (seeds %s)' % (rs[0][1], rs[0][2], rs[0][3], ','.join(str(r[0]) for r in rs))
    print('| %s | %d / %d / %s / %.0f s | %s |' % (e['property_id'], c['evaluations'], c['distinct_nontrivial'], cnt, e['wall_s'], t))
