#!/bin/bash
# usage: lane.sh up <dir> [patch.diff|-R:<commit>]   |   lane.sh down <dir>
# Sets up a private lane (copy of /verif + scratch worktree of /repo HEAD with an
# optional change applied) for trying checks against changed code without touching /repo:
#   cd <dir>/verif && REPO_DIR=<dir>/repo ./check.sh C05 quick
set -u
CMD="$1"; D="$2"
case "$CMD" in
up)
  rm -rf "$D"; mkdir -p "$D"; git -C /repo worktree prune
  rsync -a --exclude .git --exclude .build --exclude evidence --exclude replays --exclude seeded /verif/ "$D/verif/"
  git -C /repo worktree add -q --detach "$D/repo" HEAD || exit 1
  sed -i "s#=> /repo#=> $D/repo#" "$D/verif/harness/go.mod"
  if [ -n "${3:-}" ]; then
    case "$3" in
      -R:*) git -C /repo show "${3#-R:}" | git -C "$D/repo" apply -R || exit 1 ;;
      *) git -C "$D/repo" apply "$3" || exit 1 ;;
    esac
  fi ;;
sync) rsync -a --exclude .git --exclude .build --exclude evidence --exclude replays --exclude seeded --exclude harness/go.mod /verif/ "$D/verif/" ;;
down) git -C /repo worktree remove --force "$D/repo" 2>/dev/null; rm -rf "$D"; git -C /repo worktree prune ;;
esac
