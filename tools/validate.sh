#!/bin/bash
# Validates MANIFEST.json and every evidence file against the schemas.
cd "$(dirname "$0")/.."
python3-vt - <<'PY'
import json, jsonschema, glob, sys
ok = True
try:
    jsonschema.validate(json.load(open('MANIFEST.json')), json.load(open('/root/.vp/MANIFEST.schema.json')))
    print('MANIFEST.json valid')
except Exception as e:
    ok = False; print('MANIFEST INVALID', e)
sch = json.load(open('/root/.vp/EVIDENCE.schema.json'))
for f in sorted(glob.glob('evidence/*.json')):
    try:
        jsonschema.validate(json.load(open(f)), sch); print(f, 'valid')
    except Exception as e:
        ok = False; print(f, 'INVALID', str(e)[:300])
sys.exit(0 if ok else 1)
PY
