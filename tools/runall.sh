#!/bin/bash
# usage: tools/runall.sh [quick|thorough] [ids...]  — runs checks, prints one line each
cd "$(dirname "$0")/.."
TIER="${1:-quick}"; shift
IDS="$@"
[ -z "$IDS" ] && IDS=$(python3 -c "import json;print(' '.join(c['property_id'] for c in json.load(open('MANIFEST.json'))['checks']))")
for id in $IDS; do
  s=$(date +%s)
  out=$(./check.sh $id $TIER 2>&1); rc=$?
  e=$(date +%s)
  echo "$id rc=$rc $((e-s))s :: $(echo "$out" | grep -E "^$id tier" | head -1)"
  echo "$out" | grep -E "^VIOLATION|^INCONCLUSIVE|^BUILD-FAILED" | head -5
done
