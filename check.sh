#!/bin/bash
# usage: check.sh <ID> <quick|thorough>
# Rebuilds the worker from /repo's current working tree (build tag verif),
# then runs the check. Exit 0 held / 1 violation / 2 inconclusive / 3 build or usage failure.
set -u
ID="${1:?property id}"
TIER="${2:-${VERIF_TIER:-quick}}"
VERIF_DIR="$(cd "$(dirname "$0")" && pwd)"
export VERIF_DIR
export GOFLAGS=-mod=mod GOPROXY=off GOSUMDB=off GOTOOLCHAIN=local
export REPO_DIR="${REPO_DIR:-/repo}"
BUILD="$VERIF_DIR/.build"
mkdir -p "$BUILD" "$VERIF_DIR/evidence"
cd "$VERIF_DIR/harness" || exit 3
cp -f "$REPO_DIR/go.sum" go.sum 2>/dev/null
LOG="$BUILD/build-$ID.log"
if ! go build -tags verif -o "$BUILD/vw-$ID" ./cmd/vw >"$LOG" 2>&1; then
  echo "BUILD-FAILED property=$ID (see $LOG)"; tail -20 "$LOG"; exit 3
fi
case "$ID" in
  C08|C09)
    if ! go build -tags verif -o "$BUILD/vwfresh-$ID" ./cmd/vwfresh >>"$LOG" 2>&1; then
      echo "BUILD-FAILED (vwfresh) property=$ID (see $LOG)"; tail -20 "$LOG"; exit 3
    fi
    export VW_FRESH_EXE="$BUILD/vwfresh-$ID" ;;
esac
case "$ID" in
  C07|C08|C09|C19)
    # the same worker for GOARCH=386 (32-bit int, portable kernels); runs on this machine
    if ! GOARCH=386 go build -tags verif -o "$BUILD/vw-$ID-386" ./cmd/vw >>"$LOG" 2>&1; then
      echo "BUILD-FAILED (386) property=$ID (see $LOG)"; tail -20 "$LOG"; exit 3
    fi
    export VW_386_EXE="$BUILD/vw-$ID-386" ;;
esac
case "$ID" in
  C09|C11|C12|C17)
    if ! go build -race -tags verif -o "$BUILD/vw-$ID-race" ./cmd/vw >>"$LOG" 2>&1; then
      echo "BUILD-FAILED (race) property=$ID (see $LOG)"; tail -20 "$LOG"; exit 3
    fi
    export VW_RACE_EXE="$BUILD/vw-$ID-race" ;;
esac
case "$ID" in
  C02|C03|C15|C17|C18|C20|C13)
    if ! go build -o "$BUILD/par-$ID" github.com/akalin/gopar/cmd/par >>"$LOG" 2>&1; then
      echo "BUILD-FAILED (par) property=$ID (see $LOG)"; tail -20 "$LOG"; exit 3
    fi
    export VW_PAR_EXE="$BUILD/par-$ID" ;;
esac
cd "$VERIF_DIR" || exit 3
exec "$BUILD/vw-$ID" run "$ID" --tier "$TIER"
